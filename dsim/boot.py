"""Process bootstrap: pin every ambient source of nondeterminism *before* numpy is imported, and make sure
`dfols` is imported from the tree under test (DFOLS_SRC, default /repo), never from anywhere else."""
import os
import sys

PINNED_ENV = {
    'OPENBLAS_NUM_THREADS': '1',
    'OMP_NUM_THREADS': '1',
    'MKL_NUM_THREADS': '1',
    'NUMEXPR_NUM_THREADS': '1',
    'PYTHONDONTWRITEBYTECODE': '1',
}


def ensure_env(hashseed_default='0'):
    """Re-exec the interpreter if the pinned environment is not in place (BLAS thread counts are read at import
    time; the hash seed at interpreter start)."""
    want = dict(PINNED_ENV)
    want['PYTHONHASHSEED'] = os.environ.get('DSIM_HASHSEED', hashseed_default)
    if any(os.environ.get(k) != v for k, v in want.items()):
        if 'numpy' in sys.modules or os.environ.get('PYTHONHASHSEED') != want['PYTHONHASHSEED']:
            os.environ.update(want)
            os.execv(sys.executable, [sys.executable] + sys.argv)
        os.environ.update(want)


def dfols_src():
    return os.path.abspath(os.environ.get('DFOLS_SRC', '/repo'))


def import_dfols():
    src = dfols_src()
    if sys.path[0] != src:
        sys.path.insert(0, src)
    import dfols  # noqa
    got = os.path.abspath(os.path.dirname(dfols.__file__))
    if got != os.path.join(src, 'dfols'):
        raise RuntimeError('dfols imported from %s, expected %s/dfols' % (got, src))
    return dfols
