"""C07(a): the argument-fault catalogue.  Each entry replaces exactly one argument (or one user parameter, or one
documented contradiction) of an otherwise valid call and states what must happen:

    input_error : no exception, flag == EXIT_INPUT_ERROR, non-empty message, str() works, ZERO events at any seam
    value_error : ValueError (unknown parameter name)
    normal      : accepted (boundary values): a normal run with a well-formed result

The per-key part is generated from the live ParameterList of the tree under test, so new keys are picked up.
An entry lives inside the scenario (`arg_fault`), so a failing entry is an ordinary replay file."""
import copy

import numpy as np

from . import oracles as O
from . import scenario as S
from . import sim

BASE_KINDS = ['unbounded', 'bounded', 'scaled', 'convex', 'regularised', 'noisy']


def base_world(kind, seed):
    over = dict(p_bounds=0.0, p_sets=0.0, p_reg=0.0, p_noise=0.0, p_nsamples=0.0, p_restarts=0.0, p_growing=0.0, p_diag=0.0,
                p_regression=0.0, p_random_init=0.0, p_buggify=0.0, p_env_draws=0.0, p_nanregion=0.0, p_int_dtype=0.0,
                p_has_noise_flag=0.0, p_onesided=0.0, p_big_entries=0.0, p_scaling=0.0, p_infeasible_x0=0.0,
                n_choices=[2, 3], families=['lin', 'sinlin', 'rosen'], maxfun_choices=[30], x_scales=[1.0], p_explicit_rhobeg=1.0,
                p_logging=1.0, p_print_progress=0.0)
    if kind in ('bounded', 'scaled'):
        over['p_bounds'] = 1.0
    if kind == 'scaled':
        over['p_scaling'] = 1.0
    if kind == 'convex':
        over['p_sets'] = 1.0
    if kind == 'regularised':
        over['p_reg'] = 1.0
    if kind == 'noisy':
        over.update(p_noise=1.0, p_has_noise_flag=1.0, p_nsamples=1.0)
    prof = S.profile(**over)
    for j in range(200):
        scn = S.draw(seed, j, prof, salt='cat-' + kind)
        f = set(S.features(scn))
        ok = {'unbounded': 'bounds' not in f, 'bounded': 'bounds' in f and 'scaling' not in f, 'scaled': 'scaling' in f,
              'convex': 'sets' in f, 'regularised': any(x.startswith('reg:') for x in f), 'noisy': 'noisy' in f}[kind]
        ups = [kv for kv in scn['args']['user_params'] if kind == 'noisy' and kv[0].startswith('noise.')]
        if ok:
            scn['args']['user_params'] = []
            scn['args']['npt'] = None
            scn['args']['argsf'] = False
            scn['features'] = S.features(scn)
            return scn
    raise RuntimeError('no base world of kind %s' % kind)


def entries_for(scn):
    """Full list of arg_fault entries for one base world."""
    import dfols.params as dp
    eff = S.effective(scn)
    n, npt, rhobeg, rhoend, maxfun = eff['n'], eff['npt'], eff['rhobeg'], eff['rhoend'], eff['maxfun']
    E = []

    def add(target, name, value, expect, note=''):
        E.append(dict(target=target, name=name, value=value, expect=expect, note=note))

    add('arg', 'rhobeg', 0.0, 'input_error')
    add('arg', 'rhobeg', -1.0, 'input_error')
    add('arg', 'rhoend', 0.0, 'input_error')
    add('arg', 'rhoend', -1e-8, 'input_error')
    add('arg', 'rhoend', rhobeg, 'input_error', 'rhobeg == rhoend')
    add('arg', 'rhoend', 2.0 * rhobeg, 'input_error', 'rhobeg < rhoend')
    add('arg', 'npt', n, 'input_error')
    add('arg', 'npt', 1, 'input_error')
    add('arg', 'npt', 0, 'input_error')
    add('arg', 'maxfun', 0, 'input_error')
    add('arg', 'maxfun', -5, 'input_error')
    if not eff['scaling']:      # with scaling rhobeg applies to the unit box: only lower >= upper can be too narrow
        for i in range(n):
            add('bounds_gap', str(i), 1.9, 'input_error', 'gap 1.9*rhobeg in coordinate %d' % i)
    add('bounds_gap', '0', 0.0, 'input_error', 'lower == upper')
    add('bounds_gap', '0', -1.0, 'input_error', 'lower > upper')
    add('bounds_len', 'both', 1, 'input_error')
    add('bounds_len', 'lower', 1, 'input_error')
    add('bounds_len', 'upper', 1, 'input_error')
    if n > 1:
        add('bounds_len', 'both', -1, 'input_error')
    add('reg', 'no_prox', None, 'input_error')
    add('reg', 'no_lh', None, 'input_error')
    add('reg', 'lh', 0.0, 'input_error')
    add('reg', 'lh', -1.0, 'input_error')
    # per-key table read from the live object
    pl = dp.ParameterList(int(n), int(npt), int(maxfun), objfun_has_noise=bool(scn['args']['objfun_has_noise']))
    for key in sorted(pl.params.keys()):
        type_str, none_ok, lower, upper = pl.param_type(key, npt)
        if type_str == 'float':
            add('param', key, 1, 'input_error', 'int for float')
            add('param', key, 'abc', 'input_error', 'str for float')
            add('param', key, True, 'input_error', 'bool for float')
        elif type_str == 'int':
            add('param', key, 1.0, 'input_error', 'float for int')
            add('param', key, 'abc', 'input_error', 'str for int')
        elif type_str == 'bool':
            add('param', key, 1, 'input_error', 'int for bool')
            add('param', key, 'abc', 'input_error', 'str for bool')
            add('param', key, 0.0, 'input_error', 'float for bool')
        if type_str in ('float', 'int'):
            one = 1.0 if type_str == 'float' else 1
            if lower is not None:
                add('param', key, lower - one, 'input_error', 'below range')
                add('param', key, (float(lower) if type_str == 'float' else int(lower)), 'normal', 'lower boundary')
            if upper is not None:
                add('param', key, upper + one, 'input_error', 'above range')
                add('param', key, (float(upper) if type_str == 'float' else int(upper)), 'normal', 'upper boundary')
            if type_str == 'float':
                add('param', key, float('nan'), 'input_error', 'NaN')
    add('params', 'contradiction', {'growing.safety.full_geom_step': True, 'growing.safety.reduce_delta': True}, 'input_error')
    add('params', 'contradiction', {'growing.perturb_trust_region_step': True}, 'input_error', 'full rank interp (default) + perturb')
    add('params', 'contradiction', {'growing.full_rank.use_full_rank_interp': True, 'growing.perturb_trust_region_step': True}, 'input_error')
    add('params', 'contradiction', {'noise.quit_on_noise_level': True, 'noise.additive_noise_level': 1.0, 'noise.multiplicative_noise_level': 0.1}, 'input_error')
    add('params', 'contradiction', {'init.run_in_parallel': True, 'init.random_initial_directions': False}, 'input_error')
    add('params', 'contradiction', {'growing.reset_rho': True, 'growing.reset_delta': False}, 'input_error')
    add('params', 'contradiction', {'growing.reset_rho': True}, 'input_error', 'reset_rho without reset_delta (default False)')
    add('param', 'no.such.parameter', 1.0, 'value_error')
    add('param', 'restarts.use_restart', True, 'value_error', 'misspelt key')
    return E


def apply_arg_fault(af, x0, kw, scn):
    """Mutates the keyword arguments of solve() according to the entry (called by sim.Env.solve_kwargs)."""
    eff = S.effective(scn)
    n = eff['n']
    t = af['target']
    if t == 'arg':
        kw[af['name']] = af['value']
    elif t == 'param':
        up = dict(kw.get('user_params') or {})
        up[af['name']] = af['value']
        kw['user_params'] = up
    elif t == 'params':
        up = dict(kw.get('user_params') or {})
        up.update(af['value'])
        kw['user_params'] = up
    elif t in ('bounds_gap', 'bounds_len'):
        if 'bounds' in kw and kw['bounds'][0] is not None and kw['bounds'][1] is not None:
            lo = np.array(kw['bounds'][0], dtype=float)
            hi = np.array(kw['bounds'][1], dtype=float)
        else:
            xf = np.asarray(x0, dtype=float)
            lo = xf - 10.0 * eff['rhobeg'] - 1.0
            hi = xf + 10.0 * eff['rhobeg'] + 1.0
        if t == 'bounds_gap':
            i = int(af['name'])
            hi[i] = lo[i] + float(af['value']) * (1.0 if eff['scaling'] else eff['rhobeg'])
        else:
            d = int(af['value'])
            def resize(a):
                return np.concatenate([a, a[-1:]]) if d > 0 else a[:-1]
            if af['name'] in ('both', 'lower'):
                lo = resize(lo)
            if af['name'] in ('both', 'upper'):
                hi = resize(hi)
        kw['bounds'] = (lo, hi)
    elif t == 'reg':
        if 'h' not in kw:
            lam = 0.1
            kw['h'] = lambda x, _lam=lam: _lam * float(np.sum(np.abs(x)))
            kw['prox_uh'] = lambda x, u, _lam=lam: np.sign(x) * np.maximum(np.abs(x) - _lam * u, 0.0)
            kw['lh'] = lam * np.sqrt(n)
            kw.pop('argsh', None)
            kw.pop('argsprox', None)
        if af['name'] == 'no_prox':
            kw['prox_uh'] = None
        elif af['name'] == 'no_lh':
            kw['lh'] = None
        else:
            kw['lh'] = af['value']
    else:
        raise ValueError('unknown arg_fault target %r' % t)
    return kw


def check_C07_argfault(H):
    V = O.V
    af = H.scn['arg_fault']
    exp = af['expect']
    site = '%s:%s' % (af['target'], af['name'])
    desc = '%s=%r (%s)' % (af['name'], af['value'], af.get('note', ''))
    out = []
    if exp == 'value_error':
        if not isinstance(H.exc, ValueError):
            out.append(V('C07', 'unknown_key_not_valueerror', site, 'unknown parameter %s: got %s' % (af['name'], type(H.exc).__name__ if H.exc is not None else 'a normal return')))
        return out
    if H.timeout:
        return out
    if H.stepcap is not None:
        return [V('C07', 'does_not_terminate', site, '%s: %s' % (desc, H.stepcap))]
    if H.exc is not None:
        return [V('C07', 'bad_input_raises' if exp == 'input_error' else 'boundary_value_raises', H.exc_site, '%s: %s: %s' % (desc, type(H.exc).__name__, str(H.exc)[:100]))]
    s = H.soln
    if s is None:
        return [V('C07', 'no_result', site, desc)]
    out += O.check_result_wellformed(H, s)
    if exp == 'input_error':
        if s.flag != getattr(s, 'EXIT_INPUT_ERROR', -1):
            out.append(V('C07', 'bad_input_accepted', site, '%s: flag %r, msg %r' % (desc, s.flag, s.msg)))
        else:
            seams = dict(objfun=len(H.calls), nsamples=len(H.ns_calls), projections=H.proj_calls, h=H.h_calls, prox=H.prox_calls)
            if any(seams.values()):
                out.append(V('C07', 'input_error_after_seam_events', site, '%s: events before the input error: %r' % (desc, seams)))
            if s.nf != 0 or s.x is not None and False:
                out.append(V('C07', 'input_error_nonzero_nf', site, '%s: nf=%r' % (desc, s.nf)))
    else:
        if s.flag == getattr(s, 'EXIT_INPUT_ERROR', -1):
            out.append(V('C07', 'boundary_value_rejected', site, '%s: %r' % (desc, s.msg)))
    return out


O.ORACLES['C07af'] = check_C07_argfault


def leg_catalogue(base_seed, index, opts):
    """unit index -> (base world, chunk of entries).  The catalogue is enumerated completely over all units."""
    import time
    from . import legs as L
    t0 = time.time()
    res = L.new_result()
    nchunks = opts['chunks']
    kind = BASE_KINDS[index // nchunks]
    chunk = index % nchunks
    scn0 = base_world(kind, base_seed)
    ents = entries_for(scn0)
    res['stats']['catalogue_entries_total'] = len(ents) if chunk == 0 else 0
    for ei, af in enumerate(ents):
        if ei % nchunks != chunk:
            continue
        scn = S.clone(scn0)
        scn['arg_fault'] = af
        scn['origin'] = dict(scn0['origin'], base=kind, entry=ei)
        H = sim.run_scenario(scn)
        L.account(res, H, nontrivial=True)
        L._bump(res['stats'], 'expect_' + af['expect'])
        L.judge(res, H, ['C07af'], scn)
        if len(res['samples']) < 1:
            res['samples'].append(dict(base=kind, entry=af, exit=H.exit_route()[:70], calls=len(H.calls)))
    res['wall'] = time.time() - t0
    return res
