"""Per-property check definitions: which legs (workload + fault space), which probes, which oracle, how many
units per tier.  Budgets are sized for ~60-100 s (quick) and ~10-15 min (thorough) on 16 cores."""
import os

from . import scenario as S

P = S.profile

COMMON_ASSUME = [
    'numpy/scipy/pandas behave as documented; BLAS pinned to one thread',
    'the harness stubs (objfun, nsamples, projectors, h, prox) are the only external parties; re-entrancy and an objfun that mutates its argument are not simulated',
    'sampling, not enumeration: only the per-world cut-point / fault-point / catalogue legs are exhaustive',
    'dimensions n<=8, m<=10, maxfun<=400; optional Fortran trustregion module absent (Python trsbox runs)',
]

BUDGETS_BIG = [15, 25, 40, 60, 100, 150, 250, None, 'npt+3', 'npt+1']
BUDGETS_MIX = [1, 2, 3, 'npt-1', 'npt', 'npt+1', 'npt+3', 15, 25, 40, 60, 100, 150, 250, None]


def U(tier, quick, thorough=None):
    return quick if tier == 'quick' else (thorough if thorough is not None else quick * 10)


def _linalg_leg(tier, oracles, units=24, probes=(), name='linalg-fault-enumeration', **over):
    """Internal-seam fault enumeration (legs.leg_ifaults): the j-th linear solve of the interpolation system that dfols makes
    inside one of its own LinAlgError handlers fails, for every j of a fault-free reference run; restarts mostly on, so that the
    failure is followed by the soft / hard restart branches of the main loop that nothing else reaches."""
    prof = dict(p_restarts=0.85, p_hard=0.3, p_growing=0.0, p_buggify=0.5, p_nanregion=0.0, maxfun_choices=[30, 45, 60], p_regression=0.4)
    prof.update(over)
    mutate = prof.pop('mutate', None)
    cap = prof.pop('ref_budget_cap', None)
    return dict(name=name, leg='ifaults', units=U(tier, units, units * 8), opts=dict(oracles=oracles, probes=probes, mutate=mutate,
                ref_budget_cap=cap or U(tier, 50, 80), profile=P(**prof)))


def _short_rho(scn):
    """Scenario mutation: rhoend within 1.5 decades of rhobeg, soft restarts with rhoend_scale < 1 and a generous budget, so that runs
    reach 'rho has reached rhoend' several times (hand-written mutant M22: a restart branch that forgets to rescale the solver's rhoend
    survived the first version of the linear-algebra fault leg, whose runs never got that far)."""
    a = scn['args']
    eff = S.effective(scn)
    o = scn['origin']
    pick = (int(o['index']) * 7 + 3) % 5
    a['rhoend'] = float(eff['rhobeg']) * [0.3, 0.1, 0.1, 0.05, 0.03][pick]
    a['maxfun'] = 120
    up = [kv for kv in a['user_params'] if kv[0] not in ('restarts.use_restarts', 'restarts.use_soft_restarts', 'restarts.rhoend_scale',
                                                         'restarts.max_unsuccessful_restarts', 'model.abs_tol', 'model.rel_tol')]
    up += [['restarts.use_restarts', True], ['restarts.use_soft_restarts', True], ['restarts.rhoend_scale', [0.5, 0.1][pick % 2]],
           ['restarts.max_unsuccessful_restarts', 3]]
    a['user_params'] = up
    S.fix_consistency(scn)
    scn['features'] = S.features(scn)


def _scaling_flag_on(scn):
    """Scenario mutation: scaling_within_bounds=True on a world where solve() must ignore it with a warning (no bounds, one-sided
    bounds, or projections) - a documented input the generator never produced (reach probe: solver.py 969-975 executed by no check)."""
    scn['args']['scaling_within_bounds'] = True
    scn['features'] = S.features(scn)


def _target_leg(tier, oracles, units=40, probes=(), **over):
    """Target enumeration (legs.leg_targets): 'objective is sufficiently small' exit at every record evaluation of a reference run,
    alone and right after a bad value."""
    prof = dict(p_restarts=0.7, p_growing=0.0, p_buggify=0.4, p_nanregion=0.0, p_reg=0.0, p_sets=0.0, p_noise=0.0, p_nsamples=0.0, p_has_noise_flag=0.3,
                maxfun_choices=[30, 45, 60], p_regression=0.4, p_random_init=0.1, p_increase_npt=0.5)
    prof.update(over)
    return dict(name='target-enumeration', leg='targets', units=U(tier, units, units * 8), opts=dict(oracles=oracles, probes=probes,
                ref_budget_cap=U(tier, 50, 80), profile=P(**prof)))


def _c01(tier):
    return [
        dict(name='bounded-swarm', leg='swarm', units=U(tier, 1600), opts=dict(per_unit=8, oracles=['C01'], profile=P(
            p_bounds=1.0, p_sets=0.0, p_reg=0.0, maxfun_choices=BUDGETS_BIG, p_growing=0.0, p_buggify=0.7))),
        dict(name='bounded-faulted', leg='swarm', units=U(tier, 500), opts=dict(per_unit=8, oracles=['C01'], salt='faulted', profile=P(
            p_bounds=1.0, p_faults=1.0, allow_raise=False, maxfun_choices=BUDGETS_BIG, p_growing=0.0))),
        dict(name='bounded-regularised', leg='swarm', units=U(tier, 80), opts=dict(per_unit=2, oracles=['C01'], salt='reg', profile=P(
            p_bounds=1.0, p_reg=1.0, p_growing=0.0, p_restarts=0.2))),
        dict(name='bounded-convex', leg='swarm', units=U(tier, 60), opts=dict(per_unit=2, oracles=['C01'], salt='convex', profile=P(
            p_bounds=1.0, p_sets=1.0, p_sets_with_bounds=1.0, p_growing=0.0, p_restarts=0.2))),
        dict(name='bounded-growing', leg='swarm', units=U(tier, 100), opts=dict(per_unit=8, oracles=['C01'], salt='growing', profile=P(
            p_bounds=1.0, p_growing=1.0, maxfun_choices=BUDGETS_BIG))),
        _linalg_leg(tier, ['C01'], units=16, p_bounds=1.0),
        dict(name='scaling-flag-ignored', leg='swarm', units=U(tier, 80), opts=dict(per_unit=8, oracles=['C01'], salt='scalflag', mutate=_scaling_flag_on, profile=P(
            p_bounds=1.0, p_onesided=1.0, p_scaling=0.0, p_restarts=0.5, p_growing=0.0, maxfun_choices=BUDGETS_BIG, p_buggify=0.5))),
    ]


def _c02(tier):
    return [
        dict(name='cut-enumeration', leg='cuts', units=U(tier, 220), opts=dict(oracles=['C02'], ref_budget_cap=U(tier, 90, 200), profile=P(
            p_nsamples=0.6, p_noise=0.5, p_restarts=0.6, p_growing=0.0, maxfun_choices=[40, 60, 90, None], p_logging=0.9, p_buggify=0.6))),
        dict(name='swarm', leg='swarm', units=U(tier, 600), opts=dict(per_unit=8, oracles=['C02'], profile=P(
            p_nsamples=0.6, p_noise=0.5, p_restarts=0.6, p_growing=0.0, maxfun_choices=BUDGETS_MIX, p_logging=0.9))),
        dict(name='swarm-faulted', leg='swarm', units=U(tier, 200), opts=dict(per_unit=8, oracles=['C02'], salt='faulted', profile=P(
            p_nsamples=0.5, p_restarts=0.6, p_growing=0.0, p_faults=1.0, allow_raise=False, maxfun_choices=BUDGETS_BIG))),
        _linalg_leg(tier, ['C02'], p_nsamples=0.5, p_noise=0.4, p_logging=0.9),
        _target_leg(tier, ['C02'], units=24, p_logging=0.9),
        dict(name='fault-then-cut-enumeration', leg='faultpoints', units=U(tier, 30, 300), opts=dict(oracles=['C02'], kinds=['nan', '+inf'], cut_after=(1, 2),
             ref_budget_cap=U(tier, 40, 60), salt='faultcut', profile=P(p_nsamples=0.6, p_noise=0.4, p_restarts=0.7, p_growing=0.0, p_logging=0.9, p_nanregion=0.0, maxfun_choices=[25, 40, 60]))),
    ]


def _c03(tier):
    return [
        dict(name='cut-enumeration', leg='cuts', units=U(tier, 160), opts=dict(oracles=['C03'], probes=('final',), ref_budget_cap=U(tier, 80, 160), profile=P(
            p_nsamples=0.4, p_noise=0.4, p_restarts=0.6, p_growing=0.0, maxfun_choices=[40, 60, 80, None], p_buggify=0.6))),
        dict(name='swarm', leg='swarm', units=U(tier, 700), opts=dict(per_unit=8, oracles=['C03'], probes=('final',), profile=P(
            p_nsamples=0.4, p_noise=0.4, p_restarts=0.6, p_growing=0.0, maxfun_choices=BUDGETS_MIX, p_buggify=0.7, p_nanregion=0.15))),
        dict(name='regularised', leg='swarm', units=U(tier, 100), opts=dict(per_unit=2, oracles=['C03'], probes=('final',), salt='reg', profile=P(
            p_reg=1.0, p_bounds=0.5, p_growing=0.0, p_restarts=0.3, maxfun_choices=[1, 2, 'npt', 15, 25, 40]))),
        dict(name='faulted', leg='swarm', units=U(tier, 200), opts=dict(per_unit=8, oracles=['C03'], probes=('final',), salt='faulted', profile=P(
            p_restarts=0.6, p_growing=0.0, p_faults=1.0, allow_raise=False, maxfun_choices=BUDGETS_BIG))),
        _linalg_leg(tier, ['C03'], probes=('final',), p_nsamples=0.4, p_noise=0.4),
        _target_leg(tier, ['C03'], probes=('final',)),
        dict(name='fault-then-cut-enumeration', leg='faultpoints', units=U(tier, 30, 300), opts=dict(oracles=['C03'], probes=('final',), kinds=['nan', '+inf'], cut_after=(1, 2),
             ref_budget_cap=U(tier, 40, 60), salt='faultcut', profile=P(p_nsamples=0.4, p_noise=0.4, p_restarts=0.7, p_growing=0.0, p_nanregion=0.0, maxfun_choices=[25, 40, 60]))),
    ]


def _c04(tier):
    return [
        dict(name='cut-enumeration', leg='cuts', units=U(tier, 160), opts=dict(oracles=['C04'], probes=('final',), ref_budget_cap=U(tier, 80, 160), profile=P(
            deterministic=True, p_restarts=0.6, p_growing=0.0, maxfun_choices=[40, 60, 80, None], p_buggify=0.6, p_nanregion=0.2))),
        dict(name='swarm', leg='swarm', units=U(tier, 700), opts=dict(per_unit=8, oracles=['C04'], probes=('final',), profile=P(
            deterministic=True, p_restarts=0.6, p_growing=0.0, maxfun_choices=BUDGETS_MIX, p_buggify=0.7, p_nanregion=0.25, p_random_init=0.15))),
        dict(name='single-faults', leg='swarm', units=U(tier, 300), opts=dict(per_unit=8, oracles=['C04'], probes=('final',), salt='faulted', profile=P(
            deterministic=True, p_restarts=0.6, p_growing=0.0, p_faults=1.0, allow_raise=False, maxfun_choices=BUDGETS_BIG))),
        dict(name='convex', leg='swarm', units=U(tier, 100), opts=dict(per_unit=2, oracles=['C04'], probes=('final',), salt='convex', profile=P(
            deterministic=True, p_sets=1.0, p_restarts=0.4, p_growing=0.0))),
        dict(name='regularised', leg='swarm', units=U(tier, 60), opts=dict(per_unit=2, oracles=['C04'], probes=('final',), salt='reg', profile=P(
            deterministic=True, p_reg=1.0, p_bounds=0.5, p_restarts=0.3, p_growing=0.0))),
        dict(name='growing', leg='swarm', units=U(tier, 40), opts=dict(per_unit=8, oracles=['C04'], probes=('final',), salt='growing', profile=P(
            deterministic=True, p_growing=1.0, p_restarts=0.3, maxfun_choices=BUDGETS_BIG))),
        _linalg_leg(tier, ['C04'], probes=('final',), deterministic=True),
        # value fault at every k of a reference run, alone and followed by a budget cut 1 / 2 evaluations later, in worlds where
        # 'objective sufficiently small' exits are frequent (seeded change C04d: a dropped point is not saved while the incumbent is NaN)
        dict(name='fault-then-cut-enumeration', leg='faultpoints', units=U(tier, 40, 400), opts=dict(oracles=['C04'], probes=('final',), kinds=['nan', '+inf'], cut_after=(1, 2),
             ref_budget_cap=U(tier, 40, 60), salt='faultcut', profile=P(deterministic=True, p_restarts=0.7, p_growing=0.0, p_buggify=0.8, p_nanregion=0.0, maxfun_choices=[25, 40, 60]))),
        _target_leg(tier, ['C04'], probes=('final',), deterministic=True),
    ]


def _c10(tier):
    return [
        dict(name='cut-enumeration', leg='cuts', units=U(tier, 160), opts=dict(oracles=['C10'], ref_budget_cap=U(tier, 80, 160), profile=P(
            p_nsamples=0.4, p_noise=0.4, p_restarts=0.7, p_growing=0.0, maxfun_choices=[40, 60, 80, None], p_buggify=0.8))),
        dict(name='swarm', leg='swarm', units=U(tier, 900), opts=dict(per_unit=8, oracles=['C10'], profile=P(
            p_nsamples=0.4, p_noise=0.4, p_restarts=0.7, p_growing=0.0, maxfun_choices=BUDGETS_MIX, p_buggify=0.8))),
        dict(name='faulted', leg='swarm', units=U(tier, 250), opts=dict(per_unit=8, oracles=['C10'], salt='faulted', profile=P(
            p_restarts=0.6, p_growing=0.0, p_faults=1.0, allow_raise=False, maxfun_choices=BUDGETS_BIG))),
        _linalg_leg(tier, ['C10'], p_nsamples=0.4, p_noise=0.4, p_buggify=0.8),
        _target_leg(tier, ['C10']),
        _linalg_leg(tier, ['C10'], units=10, name='linalg-fault-enumeration-short-rho', mutate=_short_rho, ref_budget_cap=120, p_nsamples=0.2, p_noise=0.3),
    ]


def _c11(tier):
    return [
        dict(name='cut-enumeration', leg='cuts', units=U(tier, 140), opts=dict(oracles=['C11'], ref_budget_cap=U(tier, 80, 160), profile=P(
            p_noise=0.0, p_nsamples=0.3, p_restarts=0.6, p_growing=0.0, maxfun_choices=[40, 60, 80, None], p_nanregion=0.0,
            families=['lin', 'lin', 'lin', 'sinlin', 'cubic', 'trig', 'rosen']))),
        dict(name='swarm', leg='swarm', units=U(tier, 900), opts=dict(per_unit=8, oracles=['C11'], profile=P(
            p_noise=0.0, p_nsamples=0.3, p_restarts=0.6, p_growing=0.0, maxfun_choices=BUDGETS_BIG, p_nanregion=0.0, p_scaling=0.5,
            families=['lin', 'lin', 'lin', 'sinlin', 'cubic', 'trig', 'rosen']))),
        _linalg_leg(tier, ['C11'], p_noise=0.0, p_nsamples=0.3, p_scaling=0.5, families=['lin', 'lin', 'lin', 'sinlin', 'cubic', 'trig', 'rosen']),
    ]


def _long_march(scn):
    """Scenario mutation for the C18 'long march' leg: an unconstrained, well-scaled linear world whose minimiser is 1e11..1e14 away
    from x0, with rhobeg 1e6..1e9 - the only way for the trust-region radius to reach its 1e10 cap (seeded change C18d: the cap
    re-bracketed so that it no longer binds once delta > 2.5e9; missed by every other leg, whose radii stay below ~1e7)."""
    import hashlib
    import numpy as np
    o = scn['origin']
    g = np.random.Generator(np.random.Philox(key=int(hashlib.sha256(('%s|%s|march' % (o['base_seed'], o['index'])).encode()).hexdigest()[:15], 16)))
    n = len(scn['x0'])
    A = np.asarray(scn['world']['A'], dtype=float)[:, :n]
    m = A.shape[0]
    # well-conditioned square-or-tall system so that steps are full-length and very successful
    if m < n:
        A = np.vstack([A, g.standard_normal((n - m, n))])
        m = n
    u, sv, vt = np.linalg.svd(A, full_matrices=False)
    A = (u * np.linspace(1.0, 0.5, len(sv))).dot(vt)
    dist = float(10.0 ** g.uniform(11.0, 14.0))
    d = g.standard_normal(n)
    d /= max(float(np.linalg.norm(d)), 1e-300)
    xstar = np.asarray(scn['x0'], dtype=float) + dist * d
    scn['world'] = {'family': 'lin', 'A': A.tolist(), 'b': A.dot(xstar).tolist()}
    scn['bounds'] = None
    scn['sets'] = []
    scn['reg'] = None
    a = scn['args']
    a['scaling_within_bounds'] = False
    a['rhobeg'] = float(10.0 ** g.uniform(6.0, 9.5))
    a['rhoend'] = min(float(a['rhoend']), 1e-3 * a['rhobeg'])
    if a.get('npt') is not None:
        a['npt'] = max(n + 1, min(int(a['npt']), 2 * n + 1))
    a['user_params'] = [kv for kv in a['user_params'] if not kv[0].startswith(('model.', 'slow.', 'tr_radius.', 'general.rounding'))]
    S.fix_consistency(scn)
    scn['features'] = S.features(scn)


def _c18(tier):
    return [
        dict(name='swarm-diag', leg='swarm', units=U(tier, 800), opts=dict(per_unit=8, oracles=['C18'], profile=P(
            p_diag=1.0, p_nsamples=0.4, p_noise=0.4, p_restarts=0.7, p_growing=0.0, maxfun_choices=BUDGETS_BIG, p_buggify=0.6))),
        dict(name='cut-enumeration', leg='cuts', units=U(tier, 70), opts=dict(oracles=['C18'], ref_budget_cap=U(tier, 70, 140), profile=P(
            p_diag=1.0, p_restarts=0.7, p_growing=0.0, maxfun_choices=[40, 60, None]))),
        dict(name='faulted', leg='swarm', units=U(tier, 200), opts=dict(per_unit=8, oracles=['C18'], salt='faulted', profile=P(
            p_diag=1.0, p_restarts=0.6, p_growing=0.0, p_faults=1.0, allow_raise=False, maxfun_choices=BUDGETS_BIG))),
        dict(name='growing', leg='swarm', units=U(tier, 100), opts=dict(per_unit=8, oracles=['C18'], salt='growing', profile=P(
            p_diag=1.0, p_growing=1.0, p_restarts=0.3, maxfun_choices=BUDGETS_BIG))),
        _linalg_leg(tier, ['C18'], p_diag=1.0, p_nsamples=0.4, p_noise=0.4),
        dict(name='long-march', leg='swarm', units=U(tier, 40), opts=dict(per_unit=8, oracles=['C18'], salt='march', mutate=_long_march, profile=P(
            p_diag=1.0, p_bounds=0.0, p_nsamples=0.2, p_noise=0.2, p_restarts=0.4, p_growing=0.0, p_nanregion=0.0, p_int_dtype=0.0, maxfun_choices=[40, 60, 100, 150]))),
        _linalg_leg(tier, ['C18'], units=10, name='linalg-fault-enumeration-short-rho', mutate=_short_rho, ref_budget_cap=120, p_diag=1.0, p_nsamples=0.2, p_noise=0.3),
    ]


def _c20(tier):
    from . import oracles
    return [
        dict(name='swarm', leg='swarm', units=U(tier, 700), opts=dict(per_unit=8, oracles=['C20'], post=oracles.c20_field_fault_post, profile=P(
            p_diag=0.5, p_restarts=0.6, p_growing=0.0, maxfun_choices=BUDGETS_MIX, p_buggify=0.7, p_nanregion=0.2))),
        dict(name='faulted', leg='swarm', units=U(tier, 400), opts=dict(per_unit=8, oracles=['C20'], salt='faulted', profile=P(
            p_diag=0.5, p_restarts=0.6, p_growing=0.0, p_faults=1.0, allow_raise=False, maxfun_choices=BUDGETS_BIG))),
        dict(name='convex-and-regularised', leg='swarm', units=U(tier, 60), opts=dict(per_unit=2, oracles=['C20'], salt='cr', profile=P(
            p_diag=0.5, p_sets=0.6, p_reg=0.5, p_restarts=0.4, p_growing=0.0))),
        _linalg_leg(tier, ['C20'], units=16, p_diag=0.5),
    ]


def _c07(tier):
    from . import catalogue
    return [
        dict(name='argument-fault-catalogue', leg=catalogue.leg_catalogue, units=len(catalogue.BASE_KINDS) * 8, opts=dict(chunks=8, oracles=['C07af'])),
        dict(name='exit-routes-swarm', leg='swarm', units=U(tier, 900), opts=dict(per_unit=8, oracles=['C07'], profile=P(
            p_restarts=0.6, p_growing=0.0, maxfun_choices=BUDGETS_MIX, p_buggify=0.8, p_nanregion=0.15, p_nsamples=0.3))),
        dict(name='exit-routes-cuts', leg='cuts', units=U(tier, 60), opts=dict(oracles=['C07'], ref_budget_cap=U(tier, 70, 140), profile=P(
            p_restarts=0.6, p_growing=0.0, maxfun_choices=[40, 60, None], p_buggify=0.8))),
        dict(name='exit-routes-convex', leg='swarm', units=U(tier, 100), opts=dict(per_unit=2, oracles=['C07'], salt='convex', profile=P(
            p_sets=1.0, p_restarts=0.5, p_growing=0.0, p_buggify=0.5))),
        dict(name='exit-routes-regularised', leg='swarm', units=U(tier, 80), opts=dict(per_unit=2, oracles=['C07'], salt='reg', profile=P(
            p_reg=1.0, p_bounds=0.5, p_restarts=0.4, p_growing=0.0, p_buggify=0.5))),
        dict(name='exit-routes-growing', leg='swarm', units=U(tier, 60), opts=dict(per_unit=8, oracles=['C07'], salt='growing', profile=P(
            p_growing=1.0, p_restarts=0.4, maxfun_choices=BUDGETS_BIG))),
        _linalg_leg(tier, ['C07'], p_nsamples=0.3, p_diag=0.3),
        _linalg_leg(tier, ['C07'], units=10, name='linalg-fault-enumeration-growing', p_growing=1.0, p_restarts=0.7),
        dict(name='scaling-flag-ignored', leg='swarm', units=U(tier, 60), opts=dict(per_unit=8, oracles=['C07'], salt='scalflag', mutate=_scaling_flag_on, profile=P(
            p_bounds=0.7, p_onesided=1.0, p_scaling=0.0, p_restarts=0.5, p_growing=0.0, maxfun_choices=BUDGETS_MIX, p_buggify=0.5))),
    ]


def _c08(tier):
    return [
        dict(name='fault-point-enumeration', leg='faultpoints', units=U(tier, 48, 500), opts=dict(oracles=['C08'], ref_budget_cap=U(tier, 45, 70), profile=P(
            p_bounds=0.6, p_restarts=0.6, p_nsamples=0.3, p_noise=0.2, p_growing=0.0, p_diag=0.3, maxfun_choices=[30, 45, 60], p_buggify=0.3, p_nanregion=0.0))),
        dict(name='fault-point-enumeration-convex', leg='faultpoints', units=U(tier, 10, 80) * 6, spot=False, opts=dict(oracles=['C08'], slices=6, ref_budget_cap=U(tier, 14, 16), salt='convex', profile=P(
            p_sets=1.0, p_restarts=0.4, p_growing=0.0, maxfun_choices=[12, 16, 25], p_buggify=0.0, p_nanregion=0.0, n_choices=[1, 2, 2, 3]))),
        dict(name='multi-fault-swarm', leg='swarm', units=U(tier, 500), opts=dict(per_unit=8, oracles=['C08'], profile=P(
            p_bounds=0.6, p_restarts=0.6, p_nsamples=0.3, p_noise=0.2, p_growing=0.0, p_diag=0.3, p_faults=1.0, maxfun_choices=BUDGETS_BIG))),
        dict(name='nan-region-worlds', leg='swarm', units=U(tier, 150), opts=dict(per_unit=8, oracles=['C08'], salt='nanregion', profile=P(
            p_bounds=0.5, p_restarts=0.5, p_growing=0.0, p_nanregion=1.0, maxfun_choices=BUDGETS_BIG))),
        dict(name='growing-faulted', leg='swarm', units=U(tier, 40), opts=dict(per_unit=8, oracles=['C08'], salt='growing', profile=P(
            p_growing=1.0, p_faults=1.0, maxfun_choices=BUDGETS_BIG))),
        # every pair k1 < k2 of bad replies (NaN/NaN, NaN/inf, inf/NaN) on short runs: second-order interactions (a bad value inside the
        # restart or geometry repair that an earlier bad value triggered)
        dict(name='fault-pair-enumeration', leg='faultpoints', units=U(tier, 24, 200), opts=dict(oracles=['C08'], kinds=['nan'], pairs=True, pair_cap=U(tier, 18, 30),
             ref_budget_cap=U(tier, 18, 30), salt='pairs', profile=P(p_bounds=0.6, p_restarts=0.8, p_nsamples=0.3, p_noise=0.2, p_growing=0.0, p_diag=0.3,
             maxfun_choices=[12, 15, 18], p_buggify=0.4, p_nanregion=0.0, n_choices=[1, 2, 2, 3, 3, 4]))),
    ]


def _c19(tier):
    from . import sessions
    mf = [15, 25, 40, 60, 100, None]
    return [
        dict(name='sessions-default-bounded-scaled-regression', leg=sessions.leg_sessions, units=U(tier, 330), opts=dict(per_unit=3, profile_over=dict(
            p_bounds=0.6, p_scaling=0.4, p_restarts=0.5, p_regression=0.5, maxfun_choices=mf, p_nsamples=0.3, p_noise=0.3))),
        dict(name='sessions-convex', leg=sessions.leg_sessions, units=U(tier, 60), opts=dict(per_unit=1, profile_over=dict(
            p_sets=1.0, p_restarts=0.3, maxfun_choices=[15, 25, 40]))),
        dict(name='sessions-regularised', leg=sessions.leg_sessions, units=U(tier, 40), opts=dict(per_unit=1, profile_over=dict(
            p_reg=1.0, p_bounds=0.5, p_restarts=0.3, maxfun_choices=[15, 25, 40]))),
        dict(name='caller-data-swarm', leg='swarm', units=U(tier, 500), opts=dict(per_unit=8, oracles=['C19'], profile=P(
            p_faults=0.4, p_int_dtype=0.3, p_restarts=0.5, maxfun_choices=BUDGETS_MIX, p_growing=0.0))),
        dict(name='caller-data-convex-regularised', leg='swarm', units=U(tier, 50), opts=dict(per_unit=2, oracles=['C19'], salt='cr', profile=P(
            p_sets=0.6, p_reg=0.5, p_faults=0.3, p_growing=0.0))),
    ]


def _session_reproduce(rec):
    from . import sessions
    return sessions.reproduce(rec)


def _session_minimise(rec, same_failure):
    from . import sessions
    return sessions.minimise(rec, same_failure)


CONVEX = dict(p_sets=1.0, p_growing=0.0, p_buggify=0.3)


def _c09(tier):
    return [
        dict(name='convex-swarm', leg='swarm', units=U(tier, 420), opts=dict(per_unit=1, oracles=['C09'], probes=('dyk',), profile=P(
            p_restarts=0.4, p_bounds=0.5, **CONVEX))),
        dict(name='convex-faulted', leg='swarm', units=U(tier, 120), opts=dict(per_unit=1, oracles=['C09'], probes=('dyk',), salt='faulted', profile=P(
            p_restarts=0.4, p_bounds=0.5, p_faults=1.0, allow_raise=False, **CONVEX))),
        dict(name='convex-cuts', leg='cuts', units=U(tier, 16, 80), opts=dict(oracles=['C09'], probes=('dyk',), ref_budget_cap=U(tier, 25, 40), profile=P(
            p_restarts=0.3, p_bounds=0.5, maxfun_choices=[15, 25, 40], **CONVEX))),
        dict(name='convex-small-worlds', leg='swarm', units=U(tier, 200), opts=dict(per_unit=4, oracles=['C09'], probes=('dyk',), salt='small', profile=P(
            p_restarts=0.5, p_bounds=0.5, p_faults=0.2, allow_raise=False, n_choices=[1, 2, 2], maxfun_choices=[8, 12, 15, 20], **CONVEX))),
        dict(name='convex-scaling-flag-ignored', leg='swarm', units=U(tier, 40), opts=dict(per_unit=2, oracles=['C09'], probes=('dyk',), salt='scalflag', mutate=_scaling_flag_on, profile=P(
            p_restarts=0.4, p_bounds=1.0, p_onesided=0.0, p_sets_with_bounds=1.0, n_choices=[1, 2, 2, 3], maxfun_choices=[8, 12, 15, 20], **CONVEX))),
    ]


def _c15(tier):
    return [
        dict(name='convex-swarm', leg='swarm', units=U(tier, 380), opts=dict(per_unit=1, oracles=['insitu'], probes=('c15',), profile=P(
            p_restarts=0.4, p_bounds=0.5, **CONVEX))),
        dict(name='convex-faulted', leg='swarm', units=U(tier, 100), opts=dict(per_unit=1, oracles=['insitu'], probes=('c15',), salt='faulted', profile=P(
            p_restarts=0.4, p_bounds=0.5, p_faults=1.0, allow_raise=False, **CONVEX))),
        dict(name='convex-regularised', leg='swarm', units=U(tier, 60), opts=dict(per_unit=1, oracles=['insitu'], probes=('c15',), salt='reg', profile=P(
            p_reg=1.0, p_restarts=0.3, p_bounds=0.5, **CONVEX))),
        dict(name='convex-small-worlds', leg='swarm', units=U(tier, 160), opts=dict(per_unit=4, oracles=['insitu'], probes=('c15',), salt='small', profile=P(
            p_restarts=0.5, p_bounds=0.5, p_faults=0.2, allow_raise=False, n_choices=[1, 2, 2], maxfun_choices=[8, 12, 15, 20], **CONVEX))),
    ]


def _c12(tier):
    return [
        dict(name='box-swarm', leg='swarm', units=U(tier, 800), opts=dict(per_unit=8, oracles=['insitu'], probes=('c12',), profile=P(
            p_bounds=0.7, p_restarts=0.5, p_growing=0.0, maxfun_choices=BUDGETS_BIG, p_buggify=0.7))),
        dict(name='box-faulted', leg='swarm', units=U(tier, 300), opts=dict(per_unit=8, oracles=['insitu'], probes=('c12',), salt='faulted', profile=P(
            p_bounds=0.7, p_restarts=0.5, p_growing=0.0, p_faults=1.0, allow_raise=False, maxfun_choices=BUDGETS_BIG))),
        dict(name='box-cuts', leg='cuts', units=U(tier, 40), opts=dict(oracles=['insitu'], probes=('c12',), ref_budget_cap=U(tier, 80, 160), profile=P(
            p_bounds=0.8, p_restarts=0.5, p_growing=0.0, maxfun_choices=[60, 80, None]))),
    ]


def _far_from_base(scn):
    """Scenario mutation for the C13 'far from base' leg: never shift the base point, always compute the poisedness constant."""
    up = [kv for kv in scn['args']['user_params'] if kv[0] not in ('general.rounding_error_constant', 'logging.save_poisedness')]
    up.append(['general.rounding_error_constant', 0.0])
    up.append(['logging.save_poisedness', True])
    scn['args']['user_params'] = up
    scn['features'] = S.features(scn)


def _c13(tier):
    return [
        dict(name='box-swarm', leg='swarm', units=U(tier, 500), opts=dict(per_unit=8, oracles=['insitu'], probes=('c13',), profile=P(
            p_bounds=0.7, p_restarts=0.5, p_growing=0.0, p_diag=0.4, maxfun_choices=BUDGETS_BIG, p_buggify=0.7))),
        dict(name='box-faulted', leg='swarm', units=U(tier, 150), opts=dict(per_unit=8, oracles=['insitu'], probes=('c13',), salt='faulted', profile=P(
            p_bounds=0.7, p_restarts=0.5, p_growing=0.0, p_faults=1.0, allow_raise=False, maxfun_choices=BUDGETS_BIG))),
        dict(name='convex-swarm', leg='swarm', units=U(tier, 260), opts=dict(per_unit=1, oracles=['insitu'], probes=('c13',), salt='convex', profile=P(
            p_restarts=0.4, p_bounds=0.5, **CONVEX))),
        dict(name='regularised-swarm', leg='swarm', units=U(tier, 200), opts=dict(per_unit=1, oracles=['insitu'], probes=('c13',), salt='reg', profile=P(
            p_reg=1.0, p_bounds=0.5, p_sets=0.25, p_restarts=0.3, p_growing=0.0))),
        # geometry step far from the model's base point (large base-relative coordinates: no base shifts, big steps) with the
        # poisedness computation on: added after seeded change C13c was reached only once by the thorough tier
        dict(name='box-far-from-base', leg='swarm', units=U(tier, 100), opts=dict(per_unit=8, oracles=['insitu'], probes=('c13',), salt='farbase', mutate=_far_from_base, profile=P(
            p_bounds=1.0, p_onesided=0.3, p_scaling=0.0, p_diag=1.0, p_restarts=0.4, p_growing=0.0, x_scales=[1e3, 1e3, 10.0], maxfun_choices=[25, 40, 60, 100],
            p_buggify=0.0, p_explicit_rhobeg=0.0))),
        # regulariser + internal scaling: h must be evaluated at the un-scaled trial point (seeded change C13d)
        dict(name='regularised-scaled', leg='swarm', units=U(tier, 110), opts=dict(per_unit=1, oracles=['insitu'], probes=('c13',), salt='regscaled', profile=P(
            p_reg=1.0, p_bounds=1.0, p_onesided=0.0, p_scaling=1.0, p_sets=0.0, p_restarts=0.3, p_growing=0.0, maxfun_choices=[25, 40, 60]))),
    ]


def _c14(tier):
    return [
        dict(name='bounded-prefix-swarm', leg='swarm', units=U(tier, 900), opts=dict(per_unit=8, oracles=['C14', 'insitu'], probes=('c14',), profile=P(
            p_bounds=1.0, p_restarts=0.4, p_growing=0.0, p_random_init=0.0, p_faults=0.2, allow_raise=False, maxfun_choices=['npt', 'npt+1', 'npt+3', 25, 40], p_buggify=0.3,
            p_far_from_origin=0.2))),
        dict(name='direction-generators', leg='swarm', units=U(tier, 500), opts=dict(per_unit=8, oracles=['insitu'], probes=('c14',), salt='dirs', profile=P(
            p_bounds=0.9, p_restarts=0.7, p_growing=0.15, p_random_init=0.5, p_increase_npt=0.6, p_momentum=0.6, p_regression=0.8, maxfun_choices=BUDGETS_BIG))),
    ]


def _c16(tier):
    from . import model_machine
    return [
        dict(name='model-machine', leg=model_machine.leg_model, units=U(tier, 64, 400), opts=dict(checks=['C16'], data_faults=False, examples=U(tier, 400, 1000), steps=50)),
        dict(name='in-situ-solver-histories', leg='swarm', units=U(tier, 400), opts=dict(per_unit=8, oracles=['insitu'], probes=('c16',), profile=P(
            p_bounds=0.5, p_restarts=0.5, p_growing=0.0, p_regression=0.6, maxfun_choices=BUDGETS_BIG, p_buggify=0.9, deterministic=True))),
        # the same identities while points carry different numbers of samples (seeded change C16d: rows weighted by sqrt(nsamples))
        dict(name='in-situ-solver-histories-averaged', leg='swarm', units=U(tier, 150), opts=dict(per_unit=8, oracles=['insitu'], probes=('c16',), salt='avg', profile=P(
            p_bounds=0.5, p_restarts=0.5, p_growing=0.0, p_regression=0.8, maxfun_choices=BUDGETS_BIG, p_buggify=0.7, p_nsamples=1.0, p_bad_nsamples=0.0, p_noise=0.6, p_nanregion=0.0))),
    ]


def _c17(tier):
    from . import model_machine
    return [
        dict(name='model-machine-data-faults', leg=model_machine.leg_model, units=U(tier, 64, 400), opts=dict(checks=['C17'], data_faults=True, examples=U(tier, 400, 1000), steps=50)),
        dict(name='model-machine-clean-data', leg=model_machine.leg_model, units=U(tier, 32, 200), opts=dict(checks=['C17'], data_faults=False, examples=U(tier, 400, 1000), steps=50)),
    ]


def _model_reproduce(rec):
    from . import model_machine
    return model_machine.reproduce(rec)


def _census(tier):
    allo = ['C01', 'C02', 'C03', 'C04', 'C07', 'C08', 'C10', 'C11', 'C18', 'C19', 'C20']
    return [
        dict(name='swarm', leg='swarm', units=U(tier, 500), opts=dict(per_unit=8, oracles=allo, probes=('final',), profile=P(p_faults=0.2, allow_raise=True))),
    ]


CHECKS = {
    'C01': dict(legs=_c01, level='exploration', rule='seeded swarm of bounded worlds (all x0 placements, one-sided / mixed / huge bounds, scaling, noise, averaging, restarts, regression, growing, regularised, convex+bounds, forced base shifts) plus a value-fault leg; a run is non-trivial iff it performed >= 1 main-loop iteration; distinct = distinct path signatures; linear-algebra fault enumeration (the j-th handled, feasible linear solve of the interpolation system fails, j = 1..J_ref of a reference run, alone and in pairs)',
                assumptions=COMMON_ASSUME),
    'C02': dict(legs=_c02, level='fault_enumeration', rule='per sampled world the budget cut is enumerated at k=1..nf_ref (thorough: all k; quick: all k <= npt+3, a stride, the last 5); plus swarm and value-fault legs; refinement of the (objfun, nsamples, log) history against a counter automaton; distinct = distinct path signatures; linear-algebra fault enumeration (the j-th handled, feasible linear solve of the interpolation system fails, j = 1..J_ref of a reference run, alone and in pairs); target enumeration (small-objective exit at every record evaluation of a reference run, alone and right after a NaN/inf reply)',
                assumptions=COMMON_ASSUME),
    'C03': dict(legs=_c03, level='exploration', rule='cut-point enumeration + swarm + regularised + faulted legs; oracle at exit and once per iteration (probe) against the recorded calls; distinct = distinct path signatures; linear-algebra fault enumeration (the j-th handled, feasible linear solve of the interpolation system fails, j = 1..J_ref of a reference run, alone and in pairs); target enumeration (small-objective exit at every record evaluation of a reference run, alone and right after a NaN/inf reply)', assumptions=COMMON_ASSUME),
    'C04': dict(legs=_c04, level='exploration', rule='deterministic worlds only (no noise, nsamples==1) incl. NaN regions, convex sets, regulariser, single value faults, cut-point enumeration; oracle at exit, per run and per iteration; distinct = distinct path signatures; value fault at every k followed by a budget cut at k+1, k+2; linear-algebra fault enumeration (the j-th handled, feasible linear solve of the interpolation system fails, j = 1..J_ref of a reference run, alone and in pairs); target enumeration (small-objective exit at every record evaluation of a reference run, alone and right after a NaN/inf reply)', assumptions=COMMON_ASSUME),
    'C07': dict(legs=_c07, level='fault_enumeration', rule='(a) argument-fault catalogue enumerated completely over 6 base worlds (one argument / parameter / contradiction replaced per call; per-key entries generated from the live ParameterList); (b) every exit route reached by fault-free swarms (general, cut-point, convex, regularised, growing) must give a well-formed result; (c) return within the deterministic step cap; distinct = distinct path signatures (for the catalogue: distinct entries); linear-algebra fault enumeration (the j-th handled, feasible linear solve of the interpolation system fails, j = 1..J_ref of a reference run, alone and in pairs) incl. the growing phase',
                assumptions=COMMON_ASSUME + ['the per-key type/range table of ParameterList.param_type is taken as the documented domain of user_params']),
    'C08': dict(legs=_c08, level='fault_enumeration', rule='per sampled world a fault-free reference run, then every k=1..nf_ref x {nan,+inf,-inf,1e200} x {one,all components} + raise (exception classes: the harness class, LinAlgError, ValueError, OverflowError, ...), then from-k-on faults; random multi-fault schedules; NaN-region worlds; a fault point counts only if the fault fired; distinct = distinct path signatures',
                assumptions=COMMON_ASSUME + ['wrong-shaped residuals and exceptions from policy callbacks are outside the property and not injected']),
    'C09': dict(legs=_c09, level='exploration', rule='convex worlds (1-4 balls / half-spaces / boxes round a common interior point, with or without bounds, feasible / infeasible x0, restarts, value faults, budget cuts); wrapper round the alternating-projection routine as imported by each dfols module; every evaluated point must be a recorded output; distinct = distinct path signatures', assumptions=COMMON_ASSUME + ['the harness projector stubs are exact projections; sweeps = projector calls / p']),
    'C12': dict(legs=_c12, level='exploration', rule='in-situ assertion on every call the solver makes to the box trust-region routine during simulated (incl. fault-perturbed, forced-base-shift) runs; inputs the solver cannot produce (indefinite H, degenerate boxes) are NOT covered; distinct = distinct path signatures', assumptions=COMMON_ASSUME + ['class-B property: only inputs produced by simulated histories are asserted']),
    'C13': dict(legs=_c13, level='exploration', rule='in-situ assertions on every call to the geometry step (global maximum by a bisection oracle), the projected-gradient / S-FISTA / convex geometry solvers (norm bound) and the regularised trust-region step (predicted reduction) during simulated runs; distinct = distinct path signatures', assumptions=COMMON_ASSUME + ['class-B property: only inputs produced by simulated histories are asserted']),
    'C14': dict(legs=_c14, level='exploration', rule='(a) prefix of every bounded history with coordinate initialisation and nf >= npt, npt <= 2n+1, all x0 placements; (b) in-situ assertions on the random direction generators, which draw from the simulator-owned global RNG (random initialisation, growing, momentum steps, soft restart with increase_npt); distinct = distinct path signatures', assumptions=COMMON_ASSUME + ['class-B property for the generators: only argument patterns produced by simulated histories are asserted']),
    'C15': dict(legs=_c15, level='exploration', rule='in-situ assertion of the alternating-projection routine\'s own contract on every call made from dfols.model / solver / controller / trust_region in convex and regularised worlds (p = user sets + box (+ trust-region ball)); reference run to tol 1e-30 for a deterministic 1-in-20 sample of calls with tol <= 1e-10; distinct = distinct path signatures', assumptions=COMMON_ASSUME + ['class-B property: only calls made by simulated histories are asserted; optimality clause only for tol <= 1e-10']),
    'C10': dict(legs=_c10, level='exploration', rule='cut-point enumeration + swarm + faulted legs with buggified tolerances/slow/auto-detect settings; history oracle coupling (flag,msg) to recorded facts; distinct = distinct path signatures; linear-algebra fault enumeration (the j-th handled, feasible linear solve of the interpolation system fails, j = 1..J_ref of a reference run, alone and in pairs); target enumeration (small-objective exit at every record evaluation of a reference run, alone and right after a NaN/inf reply)', assumptions=COMMON_ASSUME),
    'C11': dict(legs=_c11, level='exploration', rule='noise-free worlds without projections; independent least-squares fit to the recorded calls named by jacmin_eval_nums; cut-point enumeration + swarm (scaling in half of the bounded runs); distinct = distinct path signatures; linear-algebra fault enumeration (the j-th handled, feasible linear solve of the interpolation system fails, j = 1..J_ref of a reference run, alone and in pairs)', assumptions=COMMON_ASSUME),
    'C16': dict(legs=_c16, level='exploration', rule='(a) Hypothesis RuleBasedStateMachine over a real Model (n<=6, m<=6, 2..2n+1 points, spreads 1e-4..1, base points up to 1e3): replace / grow / append / swap / base shift / refit / factorise-then-mutate; identities checked after every operation with tolerance 1e3*eps*cond*scale; one unit = one Hypothesis seed; (b) the same identities after every fit performed inside simulated solves (solver-made histories, forced base shifts); distinct = distinct operation lists of length >= 3 / distinct path signatures',
                assumptions=COMMON_ASSUME + ['identities are asserted only while all stored data are finite and cond(interpolation matrix) < 1e8', 'Hypothesis 6.168 generates and shrinks the operation list; the replay file is the recorded op list executed without Hypothesis']),
    'C17': dict(legs=_c17, level='exploration', rule='Hypothesis RuleBasedStateMachine over a real Model against a shadow model (per slot: absolute point, list of samples, evaluation number; saved point), operations replace / resample / append / swap / base shift / save / final query, data from {random, exact ties, NaN, +inf, -inf} (data faults) and a clean-data configuration, with and without a regulariser; one unit = one Hypothesis seed; distinct = distinct operation lists of length >= 3',
                assumptions=COMMON_ASSUME + ['no claim about exceptions once non-finite data are stored (only bookkeeping is claimed)', 'Hypothesis 6.168 generates and shrinks the operation list; the replay file is the recorded op list executed without Hypothesis']),
    'C18': dict(legs=_c18, level='exploration', rule='every run has diagnostics on; time-series invariants over soln.diagnostic_info cross-checked with the harness iteration events; swarm + cuts + faulted + growing legs; long-march worlds (radius reaches the 1e10 cap); linear-algebra fault enumeration (the j-th handled, feasible linear solve of the interpolation system fails, j = 1..J_ref of a reference run, alone and in pairs)', assumptions=COMMON_ASSUME),
    'C19': dict(legs=_c19, level='exploration', rule='sessions: the same non-randomised call W repeated under different np.random seeds, with the environment drawing from the shared global RNG between solver draws, after an unrelated call and after a call that raised; behaviour digests of all W runs must be bit-identical; caller-side snapshots of all arguments compared after every call of every leg (incl. faulted and raising runs, integer-dtype x0/bounds); distinct = distinct path signatures of the W runs',
                assumptions=COMMON_ASSUME + ['"randomised option" is read from the code: random initial directions, any growing configuration, restarts.increase_npt, momentum extra steps; convex worlds whose coordinate set needs the random repair path are detected (extra qr_rank calls) and not compared']),
    'C20': dict(legs=_c20, level='exploration', rule='every result object with a solution produced by the swarm / faulted / convex / regularised legs is pushed through to_dict -> strict json -> from_dict -> str; plus field faults (see field_faults in coverage); linear-algebra fault enumeration (the j-th handled, feasible linear solve of the interpolation system fails, j = 1..J_ref of a reference run, alone and in pairs)', assumptions=COMMON_ASSUME),
    'census': dict(legs=_census, level='exploration', rule='all oracles on a general swarm (development aid, not registered)', report_all=True, no_minimise=True, spot_check=False),
}

REPRODUCERS = {'session': _session_reproduce, 'model': _model_reproduce}
MINIMISERS = {'session': _session_minimise}

_cache = {}


def legs_for(check_id, tier):
    key = (check_id, tier)
    if key not in _cache:
        legs = CHECKS[check_id]['legs'](tier)
        only = os.environ.get('DSIM_ONLY_LEG')      # development aid (never used by registered commands): legs whose name contains the text
        if only:
            legs = [l for l in legs if any(o and o in l['name'] for o in only.split(','))]
        _cache[key] = legs
    return _cache[key]
