"""KNOWN_FINDINGS.txt: committed, line oriented, never written at run time.

    open:  property=C07 id=KF-03 clause=raises site=controller.add_new_direction_while_growing requires=growing replay=known/KF-03.json :: text
    fixed: property=C03 <commit> text  [regress=known/FX-02.json]

An open entry is identified by property + clause + site (+ required scenario features).  `site` and `clause` may
end in '*' (prefix match).  `requires` is a comma separated list of scenario features that must all be present;
an entry never matches a violation of another clause or site, so a different violation of the same property is
still reported."""
import os
import re

ROOT = os.path.dirname(os.path.dirname(os.path.abspath(__file__)))
PATH = os.path.join(ROOT, 'KNOWN_FINDINGS.txt')


class Entry(object):
    def __init__(self, status, fields, text, raw):
        self.status = status
        self.fields = fields
        self.text = text
        self.raw = raw
        self.property = fields.get('property')
        self.id = fields.get('id')
        self.clause = fields.get('clause')
        self.site = fields.get('site')
        self.requires = [r for r in fields.get('requires', '').split(',') if r]
        self.replay = fields.get('replay') or fields.get('regress')
        self.matched = 0

    def matches(self, v):
        if self.status != 'open' or v.get('prop') != self.property:
            return False
        if not _pat(self.clause, v.get('clause', '')):
            return False
        if not _pat(self.site, v.get('site', '')):
            return False
        feats = set(v.get('features') or [])
        for r in self.requires:
            alts = r.split('|')
            if not any(a in feats for a in alts):
                return False
        return True


def _pat(p, s):
    if p is None:
        return True
    for alt in p.split('|'):
        if alt.endswith('*'):
            if s.startswith(alt[:-1]):
                return True
        elif s == alt:
            return True
    return False


def load(path=PATH):
    out = []
    if not os.path.exists(path):
        return out
    for line in open(path):
        raw = line.rstrip('\n')
        line = raw.strip()
        if not line or line.startswith('#'):
            continue
        m = re.match(r'^(open|fixed):\s*(.*)$', line)
        if not m:
            continue
        status, rest = m.group(1), m.group(2)
        if '::' in rest:
            head, text = rest.split('::', 1)
        else:
            head, text = rest, ''
        fields = {}
        for tok in head.split():
            if '=' in tok:
                k, v = tok.split('=', 1)
                fields[k] = v
            elif re.match(r'^[0-9a-f]{7,40}$', tok):
                fields['commit'] = tok
        mm = re.search(r'\[regress=([^\]]+)\]', rest)
        if mm:
            fields['regress'] = mm.group(1)
        out.append(Entry(status, fields, text.strip(), raw))
    return out


def for_property(pid, path=PATH):
    return [e for e in load(path) if e.property == pid]
