"""Legs: how scenarios are produced and which oracles look at them.  A *unit* is the piece of work one pool worker
executes; it is identified by (leg name, base_seed, index) only, so results never depend on which process ran it.

Every leg returns a UnitResult dict that the parent reduces in index order."""
import hashlib
import time

import numpy as np

from . import oracles as O
from . import scenario as S
from . import sim


def new_result():
    return dict(runs=0, evals=0, iters=0, seam_events=0, digests=[], path_sigs=[], nontrivial=0, exits={}, sites={}, restarts={},
                faults_fired={}, insitu={}, violations=[], samples=[], features={}, cut_points=0, fault_points=0, raised_skipped=0,
                stats={}, other=0, wall=0.0, base_shifts=0, log_counts={})


def _bump(d, k, v=1):
    d[k] = d.get(k, 0) + v


def account(res, H, nontrivial=None):
    res['runs'] += 1
    res['evals'] += len(H.calls)
    res['iters'] += H.iter_total
    res['seam_events'] += H.seam_events + H.proj_calls + H.h_calls + H.prox_calls
    res['digests'].append(H.digest())
    res['path_sigs'].append(H.path_signature())
    nt = (H.iter_total >= 1) if nontrivial is None else nontrivial
    if nt:
        res['nontrivial'] += 1
    _bump(res['exits'], H.exit_route()[:64])
    for c in H.calls:
        _bump(res['sites'], c.site)
    for r in H.restarts:
        _bump(res['restarts'], r[0])
    for k, v in H.faults_fired.items():
        _bump(res['faults_fired'], k, v)
    for f in S.features(H.scn):
        _bump(res['features'], f)
    res['base_shifts'] += H.base_shifts
    for k, v in H.log_counts.items():
        if k.startswith(('Soft restart', 'Restarting from', 'New rho', 'Slow iteration', 'Finished growing', 'Regression:', 'Auto detection')):
            _bump(res['log_counts'], k, v)
    if H.log_anomalies:
        for a in H.log_anomalies:
            if a[0] == 'probe-error':
                _bump(res['stats'], 'probe_errors')
                res.setdefault('probe_errors', []).append(repr(a)[:200])


def judge(res, H, oracle_ids, scn, kind='solve', extra=None):
    """Apply the selected oracles; record violations with the scenario that produced them."""
    found = []
    if H.timeout:
        res['timeouts'] = res.get('timeouts', 0) + 1
        res.setdefault('timeout_scenarios', []).append(scn)
        return found
    for oid in oracle_ids:
        if oid == 'insitu':
            continue
        fn = O.ORACLES[oid]
        if oid == 'C11':
            vs = fn(H, res['stats'])
        else:
            vs = fn(H)
        found += vs
    for k, v in H.insitu_counts.items():      # merged here, after the oracles ran (history oracles count what they asserted too)
        _bump(res['insitu'], k, v)
    for nm in ('c09_maxratio', 'c12_max', 'c13_norm_excess', 'c14_dir_ratio', 'c14_cond'):
        if hasattr(H, nm):
            res['stats'][nm + '.max'] = max(res['stats'].get(nm + '.max', -1e300), float(getattr(H, nm)))
    if 'c16.fits_checked' in H.insitu_counts:
        from . import model_machine as _MM
        for k_, v_ in _MM.MARGINS.items():
            res['stats'][k_ + '.insitu.err_over_tol.max'] = max(res['stats'].get(k_ + '.insitu.err_over_tol.max', 0.0), v_)
    if getattr(H, 'dyk_stats', None):
        for k_, v_ in H.dyk_stats.items():
            if k_ in ('maxratio', 'maxerr'):
                res['stats']['dykstra.' + k_ + '.max'] = max(res['stats'].get('dykstra.' + k_ + '.max', 0.0), float(v_))
            else:
                res['stats']['dykstra.' + k_] = res['stats'].get('dykstra.' + k_, 0) + v_
    props = set(oracle_ids)
    for v in H.insitu:
        if v['prop'] in props or 'insitu' in props:
            found.append(dict(prop=v['prop'], clause=v['clause'], site=v['site'], detail=v['detail']))
    if H.exc is not None and H.exc is not H.injected and 'C07' not in props and 'C08' not in props:
        res['raised_skipped'] += 1
    for v in found:
        rec = dict(v)
        rec['scenario'] = scn
        rec['kind'] = kind
        rec['features'] = S.features(scn) + run_facts(H)
        if extra:
            rec.update(extra)
        res['violations'].append(rec)
    return found


def run_facts(H):
    """Facts of the run (not of the scenario) that known-finding entries may require."""
    f = []
    with np.errstate(all='ignore'):
        if any(c.reply is not None and not np.isfinite(O.Fvalue(H, c.reply, c.x)) for c in H.calls):
            f.append('run:nonfinite_F')
        if any(c.reply is not None and np.any(np.abs(c.reply) > 1e50) for c in H.calls):
            f.append('run:huge_values')
    if H.exc is not None:
        f.append('run:raised')
    return f


def sample_of(scn, H):
    return dict(origin=scn['origin'], family=scn['world']['family'], n=H.eff['n'], npt=H.eff['npt'], maxfun=H.eff['maxfun'],
                features=S.features(scn), faults=scn.get('faults', [])[:4], calls=len(H.calls), iterations=H.iter_total,
                restarts=[r[0] for r in H.restarts][:6], exit=H.exit_route()[:70],
                first_sites=[c.site for c in H.calls[:12]], scenario=scn)


# ---------------------------------------------------------------------------------------------------------------
# swarm leg: one scenario per index
# ---------------------------------------------------------------------------------------------------------------

def leg_swarm(base_seed, index, opts):
    t0 = time.time()
    res = new_result()
    prof = opts['profile']
    count = opts.get('per_unit', 8)
    for j in range(count):
        idx = index * count + j
        scn = S.draw(base_seed, idx, prof, salt=opts.get('salt', 'swarm'))
        if opts.get('mutate'):
            opts['mutate'](scn)
        H = sim.run_scenario(scn, probes=opts.get('probes', ()))
        account(res, H)
        judge(res, H, opts['oracles'], scn)
        if opts.get('post'):
            opts['post'](res, H, scn)
        if len(res['samples']) < 1 and H.iter_total >= 1:
            res['samples'].append(sample_of(scn, H))
    res['wall'] = time.time() - t0
    return res


# ---------------------------------------------------------------------------------------------------------------
# cut-point enumeration: budget exhausted at every k
# ---------------------------------------------------------------------------------------------------------------

def cut_set(nf_ref, npt, tier):
    if tier == 'thorough' or nf_ref <= 40:
        return list(range(1, nf_ref + 1))
    ks = set(range(1, min(nf_ref, npt + 4) + 1))
    ks.update(range(npt + 4, nf_ref + 1, max(1, (nf_ref - npt) // 12)))
    ks.update(range(max(1, nf_ref - 4), nf_ref + 1))
    return sorted(ks)


def leg_cuts(base_seed, index, opts):
    t0 = time.time()
    res = new_result()
    prof = opts['profile']
    scn = S.draw(base_seed, index, prof, salt=opts.get('salt', 'cuts'))
    cap = opts.get('ref_budget_cap', 120)
    eff = S.effective(scn)
    if eff['maxfun'] > cap or scn['args']['maxfun'] is None:
        scn['args']['maxfun'] = min(eff['maxfun'], cap)
    H = sim.run_scenario(scn, probes=opts.get('probes', ()))
    account(res, H)
    judge(res, H, opts['oracles'], scn)
    nf_ref = len(H.calls)
    res['samples'].append(dict(sample_of(scn, H), leg='cuts', nf_ref=nf_ref))
    if H.exc is not None or H.stepcap is not None:
        res['wall'] = time.time() - t0
        return res
    for k in cut_set(nf_ref, H.eff['npt'], opts.get('tier', 'quick')):
        s2 = S.clone(scn)
        s2['args']['maxfun'] = k
        s2['origin'] = dict(scn['origin'], cut=k)
        Hk = sim.run_scenario(s2, probes=opts.get('probes', ()))
        account(res, Hk, nontrivial=True)
        res['cut_points'] += 1
        judge(res, Hk, opts['oracles'], s2)
    res['wall'] = time.time() - t0
    return res


# ---------------------------------------------------------------------------------------------------------------
# fault-point enumeration: every k x every kind
# ---------------------------------------------------------------------------------------------------------------

FAULT_KINDS = ['nan', '+inf', '-inf', '1e200', 'raise']


def leg_faultpoints(base_seed, index, opts):
    t0 = time.time()
    res = new_result()
    prof = opts['profile']
    slices = int(opts.get('slices', 1))      # expensive worlds: `slices` units share one world, each takes every slices-th fault plan
    world_index, my_slice = index // slices, index % slices
    scn = S.draw(base_seed, world_index, prof, salt=opts.get('salt', 'faultpoints'))
    scn['faults'] = []
    cap = opts.get('ref_budget_cap', 60)
    eff = S.effective(scn)
    if eff['maxfun'] > cap or scn['args']['maxfun'] is None:
        scn['args']['maxfun'] = min(eff['maxfun'], cap)
    H = sim.run_scenario(scn, probes=opts.get('probes', ()))
    account(res, H)
    judge(res, H, opts['oracles'], scn)
    nf_ref = len(H.calls)
    res['samples'].append(dict(sample_of(scn, H), leg='faultpoints', nf_ref=nf_ref))
    if H.exc is not None or H.stepcap is not None:
        res['wall'] = time.time() - t0
        return res
    tier = opts.get('tier', 'quick')
    ks = list(range(1, nf_ref + 1))
    if tier != 'thorough' and nf_ref > 30:
        npt = H.eff['npt']
        keep = set(range(1, min(nf_ref, npt + 3) + 1)) | set(range(npt + 3, nf_ref + 1, max(1, (nf_ref - npt) // 10))) | {nf_ref - 1, nf_ref}
        ks = sorted(k for k in keep if 1 <= k <= nf_ref)
    plans = []
    kinds = opts.get('kinds', FAULT_KINDS)
    for k in ks:
        for kind in kinds:
            if kind == 'raise':
                # the harness' own class at every k; the classes dfols catches somewhere rotate over k in quick tier, all of them in thorough
                excs = sim.EXC_KINDS if tier == 'thorough' else ['InjectedFault', sim.EXC_KINDS[1 + k % 3], sim.EXC_KINDS[1 + (k + 1) % 3]]
                for exc in excs:
                    plans.append([{'at': k, 'kind': kind, 'comp': 'all', 'scope': 'once', 'exc': exc}])
            else:
                for comp in ('one', 'all'):
                    plans.append([{'at': k, 'kind': kind, 'comp': comp, 'scope': 'once'}])
    npt = H.eff['npt']
    for k in sorted(set(kk for kk in (1, npt, npt + 1, max(1, nf_ref // 2), nf_ref) if 1 <= kk <= nf_ref)):
        for kind in ('nan', '+inf', '1e200'):
            if kind in kinds:
                plans.append([{'at': k, 'kind': kind, 'comp': 'all', 'scope': 'from'}])
    # "fault, then crash": the budget ends d evaluations after the bad value (the run is cut while the bad value is still the
    # freshest thing the bookkeeping has seen)
    cuts = {}
    for d in opts.get('cut_after', ()):
        for k in ks:
            for kind in [kd for kd in ('nan', '+inf') if kd in kinds]:
                plans.append([{'at': k, 'kind': kind, 'comp': 'all', 'scope': 'once'}])
                cuts[len(plans) - 1] = k + d
    # second-order interactions: every pair k1 < k2 of bad replies, for short reference runs only
    if opts.get('pairs') and nf_ref <= int(opts.get('pair_cap', 20)):
        for k1 in range(1, nf_ref + 1):
            for k2 in range(k1 + 1, nf_ref + 1):
                for (a_, b_) in opts.get('pair_kinds', (('nan', 'nan'), ('nan', '+inf'), ('+inf', 'nan'))):
                    plans.append([{'at': k1, 'kind': a_, 'comp': 'all', 'scope': 'once'}, {'at': k2, 'kind': b_, 'comp': 'all', 'scope': 'once'}])
    for pi, plan in enumerate(plans):
        if pi % slices != my_slice:
            continue
        s2 = S.clone(scn)
        s2['faults'] = plan
        s2['origin'] = dict(scn['origin'], fault=plan[0])
        if pi in cuts:
            s2['args']['maxfun'] = cuts[pi]
            s2['origin']['cut'] = cuts[pi]
        if 'faults' not in s2['features']:
            s2['features'] = sorted(set(s2['features'] + ['faults']))
        Hk = sim.run_scenario(s2, probes=opts.get('probes', ()))
        fired = bool(Hk.faults_fired)
        account(res, Hk, nontrivial=fired)
        if fired:
            res['fault_points'] += 1
        judge(res, Hk, opts['oracles'], s2)
    res['wall'] = time.time() - t0
    return res


# ---------------------------------------------------------------------------------------------------------------
# internal-seam fault enumeration: the j-th handled linear solve of the interpolation system fails ("singular system")
# ---------------------------------------------------------------------------------------------------------------

def ifault_set(j_ref, tier):
    if tier == 'thorough' or j_ref <= 24:
        return list(range(1, j_ref + 1))
    js = set(range(1, 13))
    js.update(range(12, j_ref + 1, max(1, (j_ref - 12) // 10)))
    js.update(range(max(1, j_ref - 2), j_ref + 1))
    return sorted(js)


def leg_ifaults(base_seed, index, opts):
    """Per sampled world: fault-free reference run (numbers the linear solves dfols makes inside a LinAlgError handler: model fit,
    geometry step, choice of the point to replace), then one run per j with the j-th of them failing, then pairs (j, j+d) so that
    the second failure lands inside the restart the first one triggered."""
    t0 = time.time()
    res = new_result()
    prof = opts['profile']
    scn = S.draw(base_seed, index, prof, salt=opts.get('salt', 'ifaults'))
    if opts.get('mutate'):
        opts['mutate'](scn)
    scn['ifaults'] = []
    cap = opts.get('ref_budget_cap', 60)
    eff = S.effective(scn)
    if eff['maxfun'] > cap or scn['args']['maxfun'] is None:
        scn['args']['maxfun'] = min(eff['maxfun'], cap)
    H = sim.run_scenario(scn, probes=opts.get('probes', ()))
    account(res, H)
    judge(res, H, opts['oracles'], scn)
    j_ref = len(H.lin_calls)
    res['samples'].append(dict(sample_of(scn, H), leg='ifaults', j_ref=j_ref))
    if H.exc is not None or H.stepcap is not None or H.timeout:
        res['wall'] = time.time() - t0
        return res
    js = ifault_set(j_ref, opts.get('tier', 'quick'))
    plans = [[{'at': j, 'kind': 'linalg'}] for j in js]
    for j in js[::3]:
        for d in (1, 2, 4):
            plans.append([{'at': j, 'kind': 'linalg'}, {'at': j + d, 'kind': 'linalg'}])
    for plan in plans:
        s2 = S.clone(scn)
        s2['ifaults'] = plan
        s2['origin'] = dict(scn['origin'], ifault=[f['at'] for f in plan])
        s2['features'] = S.features(s2)
        Hk = sim.run_scenario(s2, probes=opts.get('probes', ()))
        fired = len(Hk.ifaults_fired)
        account(res, Hk, nontrivial=fired > 0)
        if fired:
            res['fault_points'] += 1
            for (_, site) in Hk.ifaults_fired:
                _bump(res['stats'], 'linalg_fault_fired@' + site)
            if any(r[1] > 0 for r in [(r_[0], r_[1]) for r_ in Hk.restarts]):
                pass
        judge(res, Hk, opts['oracles'], s2)
    res['wall'] = time.time() - t0
    return res


# ---------------------------------------------------------------------------------------------------------------
# target enumeration: the run ends with "objective is sufficiently small" at every record evaluation of a reference run
# ---------------------------------------------------------------------------------------------------------------

def _set_param(scn, key, value):
    up = [kv for kv in scn['args']['user_params'] if kv[0] != key]
    up.append([key, value])
    scn['args']['user_params'] = up


def leg_targets(base_seed, index, opts):
    """Per sampled world (no regulariser, no averaging): reference run; for every evaluation k that set a new record (objective below
    everything seen before) re-run with model.abs_tol = F_k, so that the run is ended by the small-objective test exactly there -
    whatever kind of step requested evaluation k (initialisation, trust-region, geometry, restart, added point): the only exit on
    which an evaluated point is abandoned *with data* when there is no averaging.  Each such run also with NaN / +inf delivered at
    evaluation k-1 ("bad value, then the target is reached")."""
    t0 = time.time()
    res = new_result()
    prof = opts['profile']
    scn = S.draw(base_seed, index, prof, salt=opts.get('salt', 'targets'))
    scn['faults'] = []
    cap = opts.get('ref_budget_cap', 60)
    eff = S.effective(scn)
    if eff['maxfun'] > cap or scn['args']['maxfun'] is None:
        scn['args']['maxfun'] = min(eff['maxfun'], cap)
    _set_param(scn, 'model.abs_tol', 1e-300)
    _set_param(scn, 'model.rel_tol', 1e-300)
    scn['features'] = S.features(scn)
    H = sim.run_scenario(scn, probes=opts.get('probes', ()))
    account(res, H)
    judge(res, H, opts['oracles'], scn)
    res['samples'].append(dict(sample_of(scn, H), leg='targets', nf_ref=len(H.calls)))
    if H.exc is not None or H.stepcap is not None or H.timeout:
        res['wall'] = time.time() - t0
        return res
    records = []
    best = float('inf')
    with np.errstate(all='ignore'):
        for c in H.calls:
            if c.reply is None:
                continue
            f = float(np.dot(c.reply, c.reply))
            if np.isfinite(f) and f > 0.0 and (f < best or c.k == 2):      # k = 2: reachable once evaluation 1 is bad
                records.append((c.k, f))
            if np.isfinite(f) and f < best:
                best = f
    if opts.get('tier', 'quick') != 'thorough' and len(records) > 14:
        records = records[:8] + records[8::max(1, (len(records) - 8) // 6)]
    for (k, f) in records:
        variants = [None] + ([('nan', k - 1), ('+inf', k - 1)] if k >= 2 else [])
        for var in variants:
            s2 = S.clone(scn)
            _set_param(s2, 'model.abs_tol', f * (1.0 + 1e-9))
            if var is not None:
                s2['faults'] = [{'at': var[1], 'kind': var[0], 'comp': 'all', 'scope': 'once'}]
            s2['origin'] = dict(scn['origin'], target=k, fault=var[0] if var else None)
            s2['features'] = S.features(s2)
            Hk = sim.run_scenario(s2, probes=opts.get('probes', ()))
            hit = Hk.soln is not None and 'sufficiently small' in str(getattr(Hk.soln, 'msg', ''))
            account(res, Hk, nontrivial=hit)
            if hit:
                res['cut_points'] += 1
                if Hk.calls:
                    _bump(res['stats'], 'target_exit@' + Hk.calls[-1].site)
            judge(res, Hk, opts['oracles'], s2)
    res['wall'] = time.time() - t0
    return res


LEGS = {'targets': leg_targets, 'swarm': leg_swarm, 'cuts': leg_cuts, 'faultpoints': leg_faultpoints, 'ifaults': leg_ifaults}
