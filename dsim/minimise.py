"""Delta debugging over a structured scenario (DESIGN 3.10).  A candidate is kept iff `fails(candidate)` — i.e. it
fails with the same signature (property, clause, site)."""
import time

import numpy as np

from . import scenario as S


def _drop_coord(scn, i):
    s = S.clone(scn)
    n = len(s['x0'])
    if n <= 1:
        return None
    s['x0'] = s['x0'][:i] + s['x0'][i + 1:]
    w = s['world']
    w['A'] = [row[:i] + row[i + 1:] for row in w['A']]
    if w.get('nan_region'):
        a = w['nan_region']['a']
        w['nan_region']['a'] = a[:i] + a[i + 1:]
        if not any(w['nan_region']['a']):
            return None
    b = s['bounds']
    if b is not None:
        for side in ('lower', 'upper'):
            if b[side] is not None:
                b[side] = b[side][:i] + b[side][i + 1:]
    for st in s['sets']:
        for key in ('c', 'a', 'l', 'u'):
            if key in st:
                st[key] = st[key][:i] + st[key][i + 1:]
        if st['kind'] == 'half' and not any(st['a']):
            return None
    n2 = n - 1
    a = s['args']
    if a['npt'] is not None:
        a['npt'] = max(n2 + 1, min(a['npt'] - 1, (n2 + 1) * (n2 + 2) // 2))
    if w['family'] == 'expfit' and n2 < 2:
        w['family'] = 'lin'
    return S.fix_consistency(s)


def _drop_row(scn, i):
    s = S.clone(scn)
    w = s['world']
    if len(w['A']) <= 1:
        return None
    w['A'] = w['A'][:i] + w['A'][i + 1:]
    w['b'] = w['b'][:i] + w['b'][i + 1:]
    return s


def candidates(scn):
    """Yields (description, candidate) pairs, simplest-first within each class."""
    # 1. faults
    for i in range(len(scn.get('faults', []))):
        s = S.clone(scn)
        del s['faults'][i]
        yield 'drop fault %d' % i, s
    for i in range(len(scn.get('ifaults', []) or [])):
        s = S.clone(scn)
        del s['ifaults'][i]
        yield 'drop internal fault %d' % i, s
    # 3. user params
    ups = scn['args']['user_params']
    for i in range(len(ups)):
        s = S.clone(scn)
        del s['args']['user_params'][i]
        yield 'drop param %s' % ups[i][0], S.fix_consistency(s)
    # 4. features off
    e = scn['env']
    if e['noise']['kind'] != 'none':
        s = S.clone(scn)
        s['env']['noise'] = {'kind': 'none', 'level': 0.0, 'seed': 0}
        yield 'noise off', s
    if e['nsamples']['mode'] != 'none':
        s = S.clone(scn)
        s['env']['nsamples'] = {'mode': 'none', 'values': []}
        yield 'nsamples off', s
        if e['nsamples']['mode'] == 'table':
            s = S.clone(scn)
            s['env']['nsamples'] = {'mode': 'const', 'values': [max(e['nsamples']['values'])]}
            yield 'nsamples const', s
    if e['rng'].get('env_draws_per_call'):
        s = S.clone(scn)
        s['env']['rng']['env_draws_per_call'] = 0
        yield 'env draws off', s
    a = scn['args']
    for key in ('scaling_within_bounds', 'print_progress', 'objfun_has_noise', 'do_logging'):
        if a.get(key):
            s = S.clone(scn)
            s['args'][key] = False
            yield key + ' off', s
    if a.get('argsf'):
        s = S.clone(scn)
        s['args']['argsf'] = False
        yield 'argsf off', s
    if scn.get('reg'):
        s = S.clone(scn)
        s['reg'] = None
        yield 'regulariser off', s
        if scn['reg'].get('style') == 'args':
            s = S.clone(scn)
            s['reg']['style'] = 'closure'
            yield 'reg closure style', s
    for i in range(len(scn.get('sets') or [])):
        s = S.clone(scn)
        del s['sets'][i]
        yield 'drop set %d' % i, s
    if scn['bounds'] is not None:
        s = S.clone(scn)
        s['bounds'] = None
        s['args']['scaling_within_bounds'] = False
        yield 'bounds off', s
        for side in ('lower', 'upper'):
            if scn['bounds'][side] is not None and scn['bounds']['upper' if side == 'lower' else 'lower'] is not None:
                s = S.clone(scn)
                s['bounds'][side] = None
                s['args']['scaling_within_bounds'] = False
                yield 'drop %s bounds' % side, s
    if scn['world'].get('nan_region'):
        s = S.clone(scn)
        del s['world']['nan_region']
        yield 'nan region off', s
    if scn.get('x0_dtype') == 'int':
        s = S.clone(scn)
        s['x0_dtype'] = 'float'
        yield 'float x0', s
    for key in ('npt', 'rhobeg'):
        if a.get(key) is not None:
            s = S.clone(scn)
            s['args'][key] = None
            yield key + ' default', S.fix_consistency(s)
    if a['rhoend'] != 1e-8:
        s = S.clone(scn)
        s['args']['rhoend'] = 1e-8
        yield 'rhoend default', s
    # 6. family, dimensions
    if scn['world']['family'] != 'lin':
        s = S.clone(scn)
        s['world']['family'] = 'lin'
        yield 'linear family', s
    n = len(scn['x0'])
    for i in reversed(range(n)):
        s = _drop_coord(scn, i)
        if s is not None:
            yield 'drop coordinate %d' % i, s
    for i in reversed(range(len(scn['world']['A']))):
        s = _drop_row(scn, i)
        if s is not None:
            yield 'drop residual %d' % i, s
    # 5. faults earlier
    for i, f in enumerate(scn.get('faults', [])):
        if f['at'] > 1:
            for at in (1, f['at'] // 2, f['at'] - 1):
                if 1 <= at < f['at']:
                    s = S.clone(scn)
                    s['faults'][i]['at'] = at
                    yield 'fault %d earlier (%d)' % (i, at), s
        if f.get('scope') == 'from':
            s = S.clone(scn)
            s['faults'][i]['scope'] = 'once'
            yield 'fault %d once' % i, s
    for i, f in enumerate(scn.get('ifaults', []) or []):
        if f['at'] > 1:
            for at in (1, f['at'] // 2, f['at'] - 1):
                if 1 <= at < f['at']:
                    s = S.clone(scn)
                    s['ifaults'][i]['at'] = at
                    yield 'internal fault %d earlier (%d)' % (i, at), s
    # 7. numbers
    x0 = scn['x0']
    if any(v != 0.0 for v in x0):
        s = S.clone(scn)
        s['x0'] = [0.0] * n
        yield 'x0 zero', s
        s = S.clone(scn)
        s['x0'] = [float('%.2g' % v) for v in x0]
        if s['x0'] != x0:
            yield 'x0 rounded', s
    A = scn['world']['A']
    Ar = [[float('%.3g' % v) for v in row] for row in A]
    if Ar != A:
        s = S.clone(scn)
        s['world']['A'] = Ar
        s['world']['b'] = [float('%.3g' % v) for v in s['world']['b']]
        yield 'A, b rounded', s


def minimise(scn, fails, max_runs=300, max_seconds=60.0, log=None):
    t0 = time.time()
    runs = 0
    cur = S.clone(scn)
    steps = []
    # 2. smallest budget first (cheapens everything else)
    eff = S.effective(cur)
    top = eff['maxfun']
    tried = 0
    for k in list(range(1, min(top, 40))) + list(range(40, top, max(1, top // 20))):
        if runs >= max_runs // 3 or time.time() - t0 > max_seconds / 3:
            break
        s = S.clone(cur)
        s['args']['maxfun'] = k
        runs += 1
        tried += 1
        if _safe(fails, s):
            cur = s
            steps.append('maxfun=%d' % k)
            break
    changed = True
    while changed and runs < max_runs and time.time() - t0 < max_seconds:
        changed = False
        for desc, cand in candidates(cur):
            if runs >= max_runs or time.time() - t0 > max_seconds:
                break
            runs += 1
            if _safe(fails, cand):
                cur = cand
                steps.append(desc)
                changed = True
                break
    cur['features'] = [f for f in cur.get('features', [])]
    return cur, dict(runs=runs, seconds=round(time.time() - t0, 2), steps=steps)


def _safe(fails, s):
    try:
        return bool(fails(s))
    except Exception:
        return False
