"""Model-level engine (C16, C17): seeded operation histories on a real dfols Model.  Every choice of an example is drawn from
one random.Random(seed); the op list (plain JSON data) is the replay file, executed by `run_ops` in a plain interpreter loop;
shrinking is ddmin over the op list plus value simplification.  (Hypothesis was tried first and dropped: see the note above
gen_example.)

C17: real Model against a shadow model (per slot: absolute point, list of samples, evaluation number; saved point).
C16: interpolation / regression / Lagrange / base-shift identities after every operation, tolerance 1e3*eps*cond*scale."""
import hashlib
import json
import math
import time

import numpy as np

from . import oracles as O

EPS = float(np.finfo(float).eps)
V = O.V


def _arr(v):
    return np.array(v, dtype=float)


def _nanmean(samples):
    with np.errstate(all='ignore'):
        return np.mean(np.array(samples, dtype=float), axis=0)


class State(object):
    def __init__(self, init):
        from dfols.model import Model
        self.init = init
        n, m, npt = init['n'], init['m'], init['npt']
        self.lam = init.get('lam')
        h = None
        if self.lam is not None:
            lam = self.lam
            h = lambda x, _l=lam: _l * float(np.sum(np.abs(x)))
        self.h = h
        x0 = _arr(init['x0'])
        r0 = _arr(init['r0'])
        xl = _arr(init['xl'])
        xu = _arr(init['xu'])
        self.model = Model(npt, x0, r0, xl, xu, [], init.get('r0_nsamples', 1), h=h, precondition=init.get('precondition', True), do_logging=False,
                           x0_eval_num=init.get('x0_eval_num', 1)) if _has_kw(Model, 'x0_eval_num') else \
            Model(npt, x0, r0, xl, xu, [], init.get('r0_nsamples', 1), h=h, precondition=init.get('precondition', True), do_logging=False)
        # shadow
        self.slots = [dict(p=x0.copy(), samples=[r0.copy()] , eval_num=init.get('x0_eval_num', 1) if _has_kw(Model, 'x0_eval_num') else 1, ns0=init.get('r0_nsamples', 1))]
        self.saved = None            # dict(x, r, obj, ns, ev)
        self.incumbent_overwritten = False
        self.nops = 0

    def hv(self, x):
        return 0.0 if self.h is None else self.h(x)

    def F(self, r, x):
        with np.errstate(all='ignore'):
            return float(np.dot(r, r)) + self.hv(x)


def _has_kw(cls, name):
    import inspect
    try:
        return name in inspect.signature(cls.__init__).parameters
    except Exception:
        return False


# ---------------------------------------------------------------------------------------------------------------
# applying one operation to the real model and to the shadow
# ---------------------------------------------------------------------------------------------------------------

def apply(st, op, checks=('C16', 'C17')):
    """Returns list of violations."""
    M = st.model
    kind = op['op']
    out = []
    st.nops += 1
    site = kind
    kopt_before = int(M.kopt)
    pre = None
    if kind == 'shift_base' and 'C16' in checks:
        pre = _shift_snapshot(st)
    try:
        if kind == 'change_point':
            k = op['k']
            x = _arr(op['x'])
            r = _arr(op['r'])
            growing_add = (k >= M.npt_so_far and M.npt_so_far < M.num_pts)
            old_obj = float(M.objval[k]) if not growing_add else None
            M.change_point(k, x, r, op['eval_num'])
            slot = dict(p=M.xbase + x, samples=[r.copy()], eval_num=op['eval_num'], ns0=1)
            if growing_add:
                st.slots.append(slot)
            else:
                st.slots[k] = slot
                if k == kopt_before:
                    # the incumbent slot itself was overwritten: kopt may now designate a worse value (documented exception)
                    st.incumbent_overwritten = True
            for r2 in op.get('extra', []) or []:
                # further samples of the new point, added straight away - the only way solve() ever calls add_new_sample
                r2 = _arr(r2)
                M.add_new_sample(k, rvec_extra=r2)
                slot['samples'].append(r2.copy())
                st.incumbent_overwritten = False
        elif kind == 'add_new_sample':
            k = op['k']
            r = _arr(op['r'])
            M.add_new_sample(k, rvec_extra=r)
            st.slots[k]['samples'].append(r.copy())
            st.incumbent_overwritten = False      # add_new_sample re-selects the incumbent among all stored values
        elif kind == 'add_new_point':
            x = _arr(op['x'])
            r = _arr(op['r'])
            M.add_new_point(x, r, op['eval_num'])
            st.slots.append(dict(p=M.xbase + x, samples=[r.copy()], eval_num=op['eval_num'], ns0=1))
        elif kind == 'swap_points':
            k1, k2 = op['k1'], op['k2']
            M.swap_points(k1, k2)
            st.slots[k1], st.slots[k2] = st.slots[k2], st.slots[k1]
        elif kind == 'shift_base':
            if op.get('to_xopt'):
                shift = M.xopt().copy()
            else:
                shift = _arr(op['shift'])
            M.shift_base(shift)
        elif kind == 'save_point':
            x = _arr(op['x'])
            r = _arr(op['r'])
            jac0, jev0 = _jac_snapshot(M)
            M.save_point(x, r, op['nsamples'], op['eval_num'], x_in_abs_coords=True)
            obj = st.F(r, x)
            cur = st.saved
            if cur is None or obj <= cur['obj'] or (math.isnan(cur['obj']) and not math.isnan(obj)):
                st.saved = dict(x=x.copy(), r=r.copy(), obj=obj, ns=op['nsamples'], ev=op['eval_num'], jac=jac0, jev=jev0)
        elif kind == 'save_incumbent':
            # exactly what Controller.soft_restart does: the residuals handed over are a VIEW of the model's own table
            kk = int(M.kopt)
            x = M.xopt(abs_coordinates=True)
            r = M.ropt()
            ns = int(M.nsamples[kk])
            ev = int(M.eval_num[kk])
            rcopy = np.array(r, dtype=float, copy=True)
            xcopy = np.array(x, dtype=float, copy=True)
            jac0, jev0 = _jac_snapshot(M)
            M.save_point(x, r, ns, ev, x_in_abs_coords=True)
            obj = st.F(rcopy, xcopy)
            cur = st.saved
            if cur is None or obj <= cur['obj'] or (math.isnan(cur['obj']) and not math.isnan(obj)):
                st.saved = dict(x=xcopy, r=rcopy, obj=obj, ns=ns, ev=ev, jac=jac0, jev=jev0)
        elif kind == 'interpolate':
            full_rank = bool(op.get('make_full_rank')) and M.npt() < M.n() + 1
            ok = M.interpolate_mini_models_svd(make_full_rank=full_rank)[0]
            if 'C16' in checks and ok:
                # the statement makes no exception for the optional full-rank completion of the growing phase: its own site name,
                # so that what fails there (KF-39) cannot hide a failure of the plain fit
                out += check_fit(st, 'interpolate_full_rank' if full_rank else site)
        elif kind == 'factorise':
            M.factorise_geom_system()
        elif kind == 'final':
            pass
        else:
            raise ValueError('unknown op %r' % kind)
    except AssertionError as e:
        # the machine only issues operations within each method's documented index ranges
        out.append(V('C17', 'assertion_in_model', site, 'AssertionError: %s' % (str(e)[:100],)))
        return out
    except Exception as e:
        if not _all_finite(st) or (kind in ('interpolate', 'factorise') and _degenerate(st)):
            return out      # no claim about exceptions once non-finite data are stored, or for a fit through coincident points
        out.append(V('C17' if 'C17' in checks else 'C16', 'raises', site, '%s: %s' % (type(e).__name__, str(e)[:100])))
        return out
    if 'C17' in checks:
        out += check_bookkeeping(st, site, kopt_before)
    if 'C16' in checks:
        if kind == 'shift_base' and pre is not None:
            out += check_shift(st, pre, site)
        if kind in ('change_point', 'add_new_point', 'swap_points', 'shift_base', 'add_new_sample') and _all_finite(st) and st.model.npt() >= 2:
            # stale-factorisation trap: every mutation must invalidate the cached factorisation
            out += check_lagrange(st, site)
    return out


def _jac_snapshot(M):
    """What save_point is documented to store with the point: the model Jacobian and the evaluation numbers it was built from."""
    jac = None if M.model_jac is None else np.array(M.model_jac, dtype=float, copy=True)
    jev = None if M.model_jac_eval_nums is None else np.array(M.model_jac_eval_nums, copy=True)
    return jac, jev


def _all_finite(st):
    M = st.model
    k = M.npt()
    return bool(np.all(np.isfinite(M.fval_v[:k])) and np.all(np.isfinite(M.points[:k])) and np.all(np.isfinite(M.xbase)))


def _degenerate(st):
    M = st.model
    try:
        return not (float(np.max(M.distances_to_xopt())) > 0.0)
    except Exception:
        return True


def _cond(st):
    if _degenerate(st):
        return float('inf'), None      # all points coincide: no interpolation problem is defined
    try:
        W, _, _ = st.model.interpolation_matrix()
    except Exception:
        return float('inf'), None
    if not np.all(np.isfinite(W)):
        return float('inf'), W
    with np.errstate(all='ignore'):
        c = float(np.linalg.cond(W))
    return c, W


# ---------------------------------------------------------------------------------------------------------------
# C17: bookkeeping against the shadow
# ---------------------------------------------------------------------------------------------------------------

def check_bookkeeping(st, site, kopt_before):
    M = st.model
    out = []
    npt = M.npt()
    if npt != len(st.slots):
        return [V('C17', 'point_count', site, 'model holds %d points, shadow %d' % (npt, len(st.slots)))]
    objs = []
    for k in range(npt):
        sl = st.slots[k]
        mean = _nanmean(sl['samples'])
        fv = M.fval_v[k, :]
        big = np.abs(np.array(sl['samples']))
        scale = float(np.max(big[np.isfinite(big)])) if np.any(np.isfinite(big)) else 1.0
        with np.errstate(all='ignore'):
            okr = bool(np.all((np.abs(fv - mean) <= 16 * EPS * max(scale, 1e-300) * len(sl['samples'])) | (fv == mean) | (np.isnan(fv) & np.isnan(mean))))
        if not okr:
            out.append(V('C17', 'stored_residual_not_mean_of_samples', site, 'slot %d: stored %r, mean of %d samples %r' % (k, fv.tolist()[:3], len(sl['samples']), mean.tolist()[:3])))
        want_ns = sl['ns0'] + len(sl['samples']) - 1
        if int(M.nsamples[k]) != want_ns:
            out.append(V('C17', 'sample_count_wrong', site, 'slot %d: nsamples=%d, shadow %d' % (k, int(M.nsamples[k]), want_ns)))
        if int(M.eval_num[k]) != int(sl['eval_num']):
            out.append(V('C17', 'eval_num_does_not_travel_with_point', site, 'slot %d: eval_num=%d, shadow %d' % (k, int(M.eval_num[k]), int(sl['eval_num']))))
        pabs = M.xbase + M.points[k, :]
        ptol = 64 * EPS * max(1.0, float(np.max(np.abs(M.xbase))), float(np.max(np.abs(sl['p'])))) * (1 + st.nops)
        if not np.all(np.abs(pabs - sl['p']) <= ptol):
            out.append(V('C17', 'point_moved', site, 'slot %d: absolute position differs from the shadow by %.3e' % (k, float(np.max(np.abs(pabs - sl['p']))))))
        want = st.F(fv, pabs)
        got = float(M.objval[k])
        lam = st.lam or 0.0
        tol = 16 * EPS * abs(want) + 64 * EPS * lam * (float(np.sum(np.abs(pabs))) + 1.0) * (1 + st.nops)
        if not (got == want or (math.isnan(got) and math.isnan(want)) or abs(got - want) <= tol):
            out.append(V('C17', 'objval_not_sumsq_plus_h', site, 'slot %d: objval=%r, sum(r^2)+h=%r' % (k, got, want)))
        objs.append(got)
        if len(out) >= 3:
            return out
    # incumbent
    kopt = int(M.kopt)
    if not (0 <= kopt < npt):
        return out + [V('C17', 'kopt_out_of_range', site, 'kopt=%d npt=%d' % (kopt, npt))]
    # claim only among finite values: "preferring any finite value over NaN" - between +inf and NaN nothing is claimed
    nums = [v for v in objs if math.isfinite(v)]
    if nums:
        best = min(nums)
        cur = objs[kopt]
        is_min = math.isfinite(cur) and cur <= best
        if is_min:
            st.incumbent_overwritten = False
        elif not st.incumbent_overwritten:
            out.append(V('C17', 'incumbent_not_smallest', site, 'kopt=%d has objective %r, smallest stored is %r (slot %d)' % (kopt, cur, best, objs.index(best))))
    # final result query
    try:
        x, r, obj, jac, ns, ev, jev = M.get_final_results()
    except Exception as e:
        return out + [V('C17', 'final_query_raises', site, '%s: %s' % (type(e).__name__, str(e)[:80]))]
    oi = objs[kopt]
    cands = [('incumbent', oi)]
    if st.saved is not None:
        cands.append(('saved', st.saved['obj']))
    nn = [c for c in cands if math.isfinite(c[1])]
    if nn:
        bestv = min(c[1] for c in nn)
        if not math.isfinite(float(obj)) or float(obj) > bestv + 16 * EPS * abs(bestv):
            out.append(V('C17', 'final_not_better_of_saved_and_incumbent', site, 'returned obj=%r, incumbent %r, saved %r' % (float(obj), oi, st.saved['obj'] if st.saved else None)))
        else:
            # consistency of the returned tuple with its source
            src = 'incumbent' if (st.saved is None or (float(obj) == oi and not (st.saved['obj'] < oi))) else 'saved'
            if src == 'incumbent':
                if int(ev) != int(st.slots[kopt]['eval_num']) or int(ns) != int(M.nsamples[kopt]):
                    out.append(V('C17', 'final_tuple_inconsistent', site, 'incumbent returned with eval_num=%r nsamples=%r (slot has %r, %r)' % (ev, ns, st.slots[kopt]['eval_num'], int(M.nsamples[kopt]))))
            else:
                if not np.array_equal(np.asarray(r, dtype=float), st.saved['r'], equal_nan=True):
                    out.append(V('C17', 'saved_residuals_changed', site, 'the saved point is returned with residuals %r, it was saved with %r' % (np.asarray(r).tolist()[:3], st.saved['r'].tolist()[:3])))
                if st.saved.get('jac') is not None and jac is not None and not np.array_equal(np.asarray(jac, dtype=float), st.saved['jac'], equal_nan=True):
                    out.append(V('C17', 'saved_jacobian_changed', site, 'the saved point is returned with another Jacobian than the one stored with it (max diff %.3e)' % float(np.nanmax(np.abs(np.asarray(jac, dtype=float) - st.saved['jac'])))))
                if (st.saved.get('jev') is None) != (jev is None) or (jev is not None and not np.array_equal(np.asarray(jev), st.saved['jev'])):
                    out.append(V('C17', 'saved_jacobian_points_changed', site, 'the saved point is returned with other Jacobian evaluation numbers than stored'))
                if int(ev) != int(st.saved['ev']) or int(ns) != int(st.saved['ns']) or not np.array_equal(np.asarray(x), st.saved['x']):
                    out.append(V('C17', 'final_tuple_inconsistent', site, 'saved point returned with eval_num=%r nsamples=%r (saved %r, %r)' % (ev, ns, st.saved['ev'], st.saved['ns'])))
    return out


# ---------------------------------------------------------------------------------------------------------------
# C16: identities
# ---------------------------------------------------------------------------------------------------------------

MARGINS = {}


def _margin(name, err, tol):
    if tol > 0 and math.isfinite(err):
        MARGINS[name] = max(MARGINS.get(name, 0.0), err / tol)


def check_fit(st, site):
    M = st.model
    out = []
    if not _all_finite(st):
        return out
    kappa, W = _cond(st)
    if not (kappa < 1e8):
        return out
    npt, n = M.npt(), M.n()
    F = M.fval_v[:npt, :]
    fscale = max(float(np.max(np.abs(F))), 1e-300)
    spread = math.sqrt(max(float(np.max(M.distances_to_xopt())), 1e-300))
    xb = max(1.0, float(np.max(np.abs(M.points[:npt]))) / spread)
    tol = 1e3 * EPS * kappa * fscale * xb
    pred = np.array([M.model_value(M.xpt(k), d_based_at_xopt=False, with_const_term=True) for k in range(npt)])
    if npt <= n + 1:
        err = float(np.max(np.abs(pred - F)))
        _margin('c16.interpolation', err, tol)
        if err > tol:
            out.append(V('C16', 'interpolation_not_exact', site, 'max |m(y_k) - r_k| = %.3e > %.3e (npt=%d, n=%d, cond=%.2e)' % (err, tol, npt, n, kappa)))
    else:
        res = pred - F
        ne = W.T.dot(res)
        err = float(np.max(np.abs(ne)))
        tol2 = tol * float(np.linalg.norm(W, 2)) * math.sqrt(npt) * kappa ** 0      # normal equations: W'(W dg - rhs) ~ 0
        _margin('c16.regression', err, tol2 * 10)
        if err > tol2 * 10:
            out.append(V('C16', 'regression_residual_not_orthogonal', site, "max |W'(fit - data)| = %.3e > %.3e (npt=%d, n=%d, cond=%.2e)" % (err, tol2 * 10, npt, n, kappa)))
    return out


def check_lagrange(st, site):
    M = st.model
    out = []
    kappa, W = _cond(st)
    if not (kappa < 1e8):
        return out
    npt, n = M.npt(), M.n()
    try:
        cs, gs = M.lagrange_gradient(k=None)
    except Exception as e:
        return [V('C16', 'lagrange_raises', site, '%s: %s' % (type(e).__name__, str(e)[:80]))]
    xopt = M.xopt()
    Y = np.array([M.xpt(k) - xopt for k in range(npt)])        # rows y_j - xopt
    L = cs[None, :] + Y.dot(gs)                                # L[j, k] = L_k(y_j)
    tol = 1e3 * EPS * kappa * max(1.0, float(np.max(np.abs(M.points[:npt]))) / math.sqrt(max(float(np.max(M.distances_to_xopt())), 1e-300)))
    if npt <= n + 1:
        err = float(np.max(np.abs(L - np.eye(npt))))
        _margin('c16.lagrange_delta', err, tol)
        if err > tol:
            out.append(V('C16', 'lagrange_not_delta', site, 'max |L_k(y_j) - delta_kj| = %.3e > %.3e (npt=%d, n=%d, cond=%.2e)' % (err, tol, npt, n, kappa)))
    else:
        err = float(np.max(np.abs(np.sum(L, axis=1) - 1.0)))
        _margin('c16.lagrange_sum', err, tol * npt)
        if err > tol * npt:
            out.append(V('C16', 'lagrange_do_not_sum_to_one', site, 'max |sum_k L_k(y_j) - 1| = %.3e > %.3e' % (err, tol * npt)))
    return out


def _shift_snapshot(st):
    M = st.model
    if not _all_finite(st) or not np.all(np.isfinite(M.model_jac)) or not np.all(np.isfinite(M.model_const)):
        return None
    npt = M.npt()
    absx = [M.xbase + M.points[k, :] for k in range(npt)]
    vals = [M.model_value(M.points[k, :], d_based_at_xopt=False, with_const_term=True) for k in range(npt)]
    g, H = M.build_full_model()
    return dict(absx=absx, vals=vals, g=g.copy(), H=H.copy(), xbase=M.xbase.copy())


def check_shift(st, pre, site):
    M = st.model
    out = []
    if pre is None or not _all_finite(st):
        return out
    npt = M.npt()
    spread = math.sqrt(max(float(np.max(M.distances_to_xopt())), 1e-300))
    big = max(1.0, float(np.max(np.abs(pre['xbase']))), float(np.max(np.abs(M.xbase))), float(np.max(np.abs(M.points[:npt]))))
    J = M.model_jac
    jn = float(np.linalg.norm(J)) if np.all(np.isfinite(J)) else 0.0
    vscale = max(float(np.max(np.abs(np.array(pre['vals'])))), 1e-300)
    tol = 1e3 * EPS * (vscale + jn * big) * (1 + st.nops)
    for k in range(npt):
        v = M.model_value(pre['absx'][k] - M.xbase, d_based_at_xopt=False, with_const_term=True)
        err = float(np.max(np.abs(v - pre['vals'][k])))
        if err > tol:
            out.append(V('C16', 'base_shift_changed_model_value', site, 'model value at a fixed absolute point changed by %.3e > %.3e' % (err, tol)))
            break
    g, H = M.build_full_model()
    gs = max(float(np.max(np.abs(pre['g']))), 1e-300)
    if float(np.max(np.abs(g - pre['g']))) > 1e3 * EPS * (gs + jn * (vscale + jn * big)) * (1 + st.nops):
        out.append(V('C16', 'base_shift_changed_gradient', site, 'assembled gradient changed by %.3e' % float(np.max(np.abs(g - pre['g'])))))
    if not np.array_equal(H, pre['H']) and float(np.max(np.abs(H - pre['H']))) > 1e3 * EPS * max(float(np.max(np.abs(pre['H']))), 1e-300):
        out.append(V('C16', 'base_shift_changed_hessian', site, 'assembled Hessian changed by %.3e' % float(np.max(np.abs(H - pre['H'])))))
    return out


# ---------------------------------------------------------------------------------------------------------------
# seeded generator of operation histories + delta-debugging shrinker
#
# (A Hypothesis RuleBasedStateMachine was the first implementation.  It was dropped: with hypothesis 6.168 the same
#  explicit seed produced different example sequences in 1 of 3 fresh interpreters (and always on a second run in the same
#  process), so "one seed = one exactly repeatable execution" could not be guaranteed.  The generator below draws every
#  choice from one random.Random(seed); shrinking is plain ddmin over the op list plus value simplification.)
# ---------------------------------------------------------------------------------------------------------------

NASTY = [0.0, 1.0, -1.0, 0.5, 1e-12, -1e-12]
FAULTS = [float('nan'), float('inf'), float('-inf')]


def _value(rnd, fault_rate, pool):
    r = rnd.random()
    if r < fault_rate:
        return rnd.choice(FAULTS)
    if r < fault_rate + 0.12:
        return rnd.choice(NASTY)
    if r < fault_rate + 0.22 and pool:
        return rnd.choice(pool)          # exact tie with an earlier value
    v = rnd.uniform(-1.0, 1.0)
    pool.append(v)
    if len(pool) > 40:
        pool.pop(0)
    return v


def applicable(st, op):
    """Ops are generated against the live state; after shrinking an op may no longer fit - then it is skipped."""
    M = st.model
    k = op['op']
    if k == 'change_point':
        return 0 <= op['k'] < M.npt() or (op['k'] == M.npt_so_far and M.npt_so_far < M.num_pts)
    if k == 'add_new_sample':
        return 0 <= op['k'] < M.npt()
    if k == 'add_new_point':
        return M.npt() >= M.num_pts
    if k == 'swap_points':
        return 0 <= op['k1'] < M.npt() and 0 <= op['k2'] < M.npt()
    if k in ('interpolate', 'factorise'):
        return M.npt() >= 2
    return True


def gen_example(rnd, data_faults, checks, max_steps=50):
    n = rnd.randint(1, 6)
    m = rnd.randint(1, 6)
    npt = n + 1 + rnd.randint(0, n)
    spread = 10.0 ** rnd.randint(-4, 0)
    base = 10.0 ** rnd.choice([0, 0, 1, 3])
    fault_rate = rnd.choice([0.0, 0.03, 0.1, 0.3]) if data_faults else 0.0
    pool = []
    init = dict(n=n, m=m, npt=npt, x0=[rnd.uniform(-1, 1) * base for _ in range(n)], r0=[_value(rnd, fault_rate, pool) for _ in range(m)],
                xl=[-1e20] * n, xu=[1e20] * n, precondition=rnd.random() < 0.7, lam=(0.5 if rnd.random() < 0.4 else None), r0_nsamples=1)
    rules = ['change_point', 'swap_points', 'shift_base', 'add_new_point']
    if 'C17' in checks:
        rules += ['add_new_sample', 'save_point', 'save_incumbent']
        if 'C16' not in checks:
            rules += ['interpolate']      # only so that the Jacobian stored with a saved point differs from later ones
    if 'C16' in checks:
        rules += ['interpolate', 'factorise']
    weights = dict((r, rnd.choice([0.2, 1.0, 1.0, 3.0])) for r in rules)
    weights['change_point'] = max(weights['change_point'], 1.0) * 2
    weights['add_new_point'] *= 0.3
    st = State(init)
    ops = []
    next_eval = 2
    nsteps = rnd.randint(3, max_steps)

    def point():
        coincide = rnd.random() < 0.03
        return [0.0 if coincide else rnd.uniform(-1, 1) * spread for _ in range(n)]

    def resid():
        M = st.model
        if data_faults and rnd.random() < 0.15:
            k = rnd.randrange(M.npt())
            return [float(v) for v in M.fval_v[k, :]]
        return [_value(rnd, fault_rate, pool) for _ in range(m)]
    first_violation = None
    for _ in range(nsteps):
        M = st.model
        total = sum(weights[r] for r in rules)
        x = rnd.uniform(0, total)
        rule = rules[-1]
        for r in rules:
            x -= weights[r]
            if x <= 0:
                rule = r
                break
        if rule == 'change_point':
            if M.npt_so_far < M.num_pts and rnd.random() < 0.6:
                k = M.npt_so_far
            else:
                k = rnd.randrange(M.npt())
            next_eval += 1
            op = dict(op='change_point', k=k, x=point(), r=resid(), eval_num=next_eval)
            if 'C16' in checks and 'C17' not in checks and rnd.random() < 0.3:
                op['extra'] = [resid() for _ in range(rnd.randint(1, 3))]      # unequal sample counts across the point set
        elif rule == 'add_new_sample':
            op = dict(op='add_new_sample', k=rnd.randrange(M.npt()), r=resid())
        elif rule == 'add_new_point':
            if M.npt() < M.num_pts or M.num_pts >= 2 * n + 4:
                continue
            next_eval += 1
            op = dict(op='add_new_point', x=point(), r=resid(), eval_num=next_eval)
        elif rule == 'swap_points':
            if M.npt() < 2:
                continue
            op = dict(op='swap_points', k1=rnd.randrange(M.npt()), k2=rnd.randrange(M.npt()))
        elif rule == 'shift_base':
            op = dict(op='shift_base', to_xopt=True) if rnd.random() < 0.5 else dict(op='shift_base', shift=point())
        elif rule == 'save_point':
            next_eval += 1
            op = dict(op='save_point', x=[float(v) for v in (M.xbase + _arr(point()))], r=resid(), nsamples=rnd.randint(1, 3), eval_num=next_eval)
        elif rule == 'save_incumbent':
            op = dict(op='save_incumbent')
        elif rule == 'interpolate':
            if M.npt() < 2:
                continue
            op = dict(op='interpolate', make_full_rank=rnd.random() < 0.3)
        else:
            if M.npt() < 2:
                continue
            op = dict(op='factorise')
        ops.append(op)
        vs = apply(st, op, checks)
        if vs:
            first_violation = vs[0]
            break
    return init, ops, first_violation


def run_ops(init, ops, checks=('C16', 'C17')):
    st = State(init)
    out = []
    for i, op in enumerate(ops):
        if not applicable(st, op):
            continue
        vs = apply(st, op, checks)
        if vs:
            for v in vs:
                v['detail'] = 'after op %d (%s): %s' % (i, op['op'], v['detail'])
            out += vs
            break
    return out


def shrink(init, ops, checks, expect, max_runs=400):
    """ddmin over the op list, then simplification of values; keeps the same (prop, clause, site)."""
    runs = [0]

    def fails(i_, o_):
        runs[0] += 1
        try:
            vs = run_ops(i_, o_, checks)
        except BaseException:
            return False
        return any(v['prop'] == expect['prop'] and v['clause'] == expect['clause'] and v['site'] == expect['site'] for v in vs)
    if not fails(init, ops):
        return init, ops, dict(runs=runs[0], note='not reproducible from the op list')
    # drop ops: chunks of decreasing size
    chunk = max(1, len(ops) // 2)
    while chunk >= 1 and runs[0] < max_runs:
        i = 0
        changed = False
        while i < len(ops) and runs[0] < max_runs:
            cand = ops[:i] + ops[i + chunk:]
            if fails(init, cand):
                ops = cand
                changed = True
            else:
                i += chunk
        if chunk == 1 and not changed:
            break
        chunk = max(1, chunk // 2) if chunk > 1 else (1 if changed else 0)
    # simplify values
    def simp(v):
        if isinstance(v, float) and math.isfinite(v) and v not in (0.0, 1.0):
            return [0.0, 1.0, float('%.1g' % v)]
        return []
    for oi in range(len(ops)):
        for key in ('x', 'r', 'shift'):
            if key in ops[oi]:
                for j in range(len(ops[oi][key])):
                    for nv in simp(ops[oi][key][j]):
                        if runs[0] >= max_runs:
                            break
                        cand = json.loads(json.dumps(ops))
                        cand[oi][key][j] = nv
                        if fails(init, cand):
                            ops = cand
                            break
    for key in ('x0', 'r0'):
        for j in range(len(init[key])):
            for nv in simp(init[key][j]):
                if runs[0] >= max_runs:
                    break
                cand = dict(init)
                cand[key] = list(init[key])
                cand[key][j] = nv
                if fails(cand, ops):
                    init = cand
                    break
    if init.get('lam') is not None and runs[0] < max_runs:
        cand = dict(init, lam=None)
        if fails(cand, ops):
            init = cand
    return init, ops, dict(runs=runs[0])


def ops_digest(init, ops):
    return hashlib.sha256(json.dumps([init, ops], sort_keys=True).encode()).hexdigest()


def leg_model(base_seed, index, opts):
    """One unit = `examples` operation histories drawn from random.Random(sha256(base_seed, index))."""
    from . import legs as L
    from . import scenario as S
    t0 = time.time()
    res = L.new_result()
    checks = tuple(opts['checks'])
    rnd = S.rng_for(base_seed, index, 'model-machine')
    MARGINS.clear()
    dig = hashlib.sha256()
    kinds = {}
    nops = 0
    seen = set()
    for e in range(int(opts.get('examples', 60))):
        init, ops, viol = gen_example(rnd, bool(opts.get('data_faults')), checks, int(opts.get('steps', 50)))
        d = ops_digest(init, ops)
        dig.update(d.encode())
        res['runs'] += 1
        nops += len(ops)
        for op in ops:
            kinds[op['op']] = kinds.get(op['op'], 0) + 1
        if len(ops) >= 3:
            seen.add(d[:16])
        if viol is not None and len(res['violations']) < 6:
            v = dict(viol)
            init2, ops2, info = shrink(init, ops, checks, viol)
            v['kind'] = 'model'
            v['scenario'] = dict(init=init2, ops=ops2, checks=list(checks), shrink=info, unshrunk_ops=len(ops))
            v['features'] = ['model_machine'] + (['data_faults'] if opts.get('data_faults') else []) + (['reg'] if init.get('lam') else [])
            res['violations'].append(v)
        if not res['samples'] and len(ops) >= 5:
            res['samples'].append(dict(init=dict((k, init[k]) for k in ('n', 'm', 'npt', 'lam', 'precondition')), ops=[o['op'] for o in ops][:30], operations=len(ops)))
    res['seam_events'] = nops
    res['nontrivial'] = len(seen)
    res['digests'] = [dig.hexdigest()]
    res['path_sigs'] = sorted(seen)
    res['stats'] = dict(('ops.' + k, v) for k, v in kinds.items())
    res['stats']['model_operations'] = nops
    for k_, v_ in MARGINS.items():
        res['stats'][k_ + '.err_over_tol.max'] = v_
    res['wall'] = time.time() - t0
    return res


def reproduce(rec):
    sc = rec['scenario']
    vs = run_ops(sc['init'], sc['ops'], tuple(sc.get('checks', ('C16', 'C17'))))
    for v in vs:
        v['features'] = rec.get('features')
    return vs, ops_digest(sc['init'], sc['ops'])
