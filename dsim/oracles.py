"""History oracles: each `check_Cxx(H)` reads one recorded History and returns a list of violations
dict(prop, clause, site, detail).  Tolerances are documented in DESIGN.md section 4; every equality that the code
guarantees bit-exactly is compared bit-exactly."""
import json
import math
import os
import re

import numpy as np

from . import scenario as S
from . import worlds as W

EPS = W.EPS


def V(prop, clause, site, detail):
    return dict(prop=prop, clause=clause, site=str(site), detail=str(detail)[:300])


# ---------------------------------------------------------------------------------------------------------------
# helpers
# ---------------------------------------------------------------------------------------------------------------

def has_solution(H):
    return H.soln is not None and H.soln.x is not None


def point_table(H):
    """point number -> list of calls (by the numbering handed to the evaluation routine)."""
    pts = {}
    for c in H.calls:
        if c.ev is not None:
            pts.setdefault(c.ev[1], []).append(c)
    return pts


def hval(H, x):
    if H.env.reg is None:
        return 0.0
    return H.env.reg['hval'](np.asarray(x, dtype=float))


def Fvalue(H, r, x):
    with np.errstate(all='ignore'):
        return float(np.dot(r, r)) + hval(H, x)


def user_param(H, key, default):
    for k, v in H.scn['args']['user_params']:
        if k == key:
            return v
    return default


def caller_bounds(H):
    b = H.scn['bounds']
    if b is None:
        return None, None
    lo = None if b['lower'] is None else np.array(b['lower'], dtype=float)
    hi = None if b['upper'] is None else np.array(b['upper'], dtype=float)
    return lo, hi


def deterministic_world(H):
    e = H.scn['env']
    return e['noise']['kind'] == 'none' and e['nsamples']['mode'] == 'none'


# ---------------------------------------------------------------------------------------------------------------
# C01 bounds at every evaluation
# ---------------------------------------------------------------------------------------------------------------

def check_C01(H):
    out = []
    lo, hi = caller_bounds(H)
    for c in H.calls:
        x = c.x
        bad = None
        if np.any(np.isnan(x)):
            bad = 'x contains NaN'
        elif lo is not None and np.any(x < lo):
            i = int(np.argmax(lo - x))
            bad = 'x[%d]=%r < lower=%r (by %.3e)' % (i, float(x[i]), float(lo[i]), float(lo[i] - x[i]))
        elif hi is not None and np.any(x > hi):
            i = int(np.argmax(x - hi))
            bad = 'x[%d]=%r > upper=%r (by %.3e)' % (i, float(x[i]), float(hi[i]), float(x[i] - hi[i]))
        if bad:
            clause = 'eval_nan' if 'NaN' in bad else 'eval_outside_bounds'
            out.append(V('C01', clause, c.site, 'evaluation %d: %s' % (c.k, bad)))
            if len(out) >= 3:
                break
    if has_solution(H):
        x = np.asarray(H.soln.x, dtype=float)
        if np.any(np.isnan(x)) or (lo is not None and np.any(x < lo)) or (hi is not None and np.any(x > hi)):
            out.append(V('C01', 'solution_outside_bounds', 'soln.x', 'returned x=%r violates the bounds' % (x.tolist(),)))
    return out


# ---------------------------------------------------------------------------------------------------------------
# C02 budget and counters: refinement against a counter automaton
# ---------------------------------------------------------------------------------------------------------------

def check_C02(H, faulted_ok=True):
    out = []
    maxfun = H.eff['maxfun']
    calls = H.calls
    if len(calls) > maxfun:
        out.append(V('C02', 'over_budget', calls[maxfun].site, '%d calls with maxfun=%d' % (len(calls), maxfun)))
    logging_on = bool(H.scn['args']['do_logging'])
    ns_mode = H.scn['env']['nsamples']['mode']
    ns_iter = iter(H.ns_calls)
    ns_next = next(ns_iter, None)
    latest_want = None
    prev_j = 0
    pts = {}
    order = []
    for c in calls:
        while ns_next is not None and ns_next[0] < c.seq:
            latest_want = ns_next[2]
            ns_next = next(ns_iter, None)
        if c.ev is None:
            out.append(V('C02', 'unnumbered_call', c.site, 'call %d did not come through the evaluation routine' % c.k))
            continue
        i, j = c.ev
        if i != c.k:
            out.append(V('C02', 'eval_number_gap', c.site, 'call %d is numbered evaluation %d' % (c.k, i)))
        if j not in (prev_j, prev_j + 1) or (c.k == 1 and j != 1):
            out.append(V('C02', 'point_number_gap', c.site, 'call %d has point number %d after %d' % (c.k, j, prev_j)))
        if logging_on and not c.raised:
            if c.log is None:
                out.append(V('C02', 'log_missing', c.site, 'no "Function eval" record for call %d' % c.k))
            elif c.log != c.ev:
                out.append(V('C02', 'log_mismatch', c.site, 'log says %r, evaluation routine was given %r' % (c.log, c.ev)))
        if j not in pts:
            pts[j] = dict(first=c, n=0, want=latest_want)
            order.append(j)
        else:
            if c.x.tobytes() != pts[j]['first'].x.tobytes():
                out.append(V('C02', 'same_point_different_x', c.site, 'calls %d and %d share point %d but x differs' % (pts[j]['first'].k, c.k, j)))
        pts[j]['n'] += 1
        prev_j = j
        if len(out) >= 5:
            return out
    for a in H.log_anomalies:
        if a[0] in ('unpaired', 'multi-call'):
            out.append(V('C02', 'log_' + a[0], 'log', repr(a)))
    total = len(calls)
    raised = H.exc is not None
    for idx, j in enumerate(order):
        p = pts[j]
        want = 1 if ns_mode == 'none' else max(int(p['want']) if p['want'] is not None else 1, 1)
        last = (idx == len(order) - 1)
        if p['n'] == want:
            continue
        if p['n'] < want and last and (total >= maxfun or raised or H.stepcap is not None or H.timeout):
            continue
        out.append(V('C02', 'sample_count', p['first'].site, 'point %d got %d samples, nsamples asked for %d (total calls %d, maxfun %d)' % (j, p['n'], want, total, maxfun)))
        if len(out) >= 5:
            break
    if H.soln is not None and H.soln.x is not None:
        s = H.soln
        if int(s.nf) != total:
            out.append(V('C02', 'nf_wrong', 'soln.nf', 'soln.nf=%d but %d calls were made' % (int(s.nf), total)))
        if int(s.nx) != prev_j:
            out.append(V('C02', 'nx_wrong', 'soln.nx', 'soln.nx=%d but last point number is %d' % (int(s.nx), prev_j)))
        if ns_mode == 'none' and int(s.nx) != int(s.nf):
            out.append(V('C02', 'nx_ne_nf', 'soln.nx', 'no averaging but nx=%d nf=%d' % (int(s.nx), int(s.nf))))
    return out


# ---------------------------------------------------------------------------------------------------------------
# C03 the returned solution was really evaluated
# ---------------------------------------------------------------------------------------------------------------

def _xtol(H):
    mx = 1.0
    for c in H.calls:
        v = float(np.max(np.abs(c.x))) if c.x.size else 0.0
        if np.isfinite(v):
            mx = max(mx, v)
    lo, hi = caller_bounds(H)
    for b in (lo, hi):
        if b is not None:
            fin = np.abs(b[np.abs(b) < 1e19])
            if fin.size:
                mx = max(mx, float(np.max(fin)))
    return 64 * EPS * mx


def _check_solution_triple(H, x, resid, obj, P, nx_now, where, pts, xtol):
    out = []
    site = where
    if not (1 <= P <= nx_now):
        out.append(V('C03', 'evalnum_out_of_range', site, 'evaluation-point number %r not in 1..%d' % (P, nx_now)))
        return out
    cs = pts.get(P)
    if not cs:
        out.append(V('C03', 'evalnum_unknown_point', site, 'no call was made for point %d' % P))
        return out
    xp = cs[0].x
    if not np.all(np.abs(np.asarray(x, dtype=float) - xp) <= xtol):
        # which point is it really?
        really = [j for j, cc in pts.items() if np.all(np.abs(np.asarray(x, dtype=float) - cc[0].x) <= xtol)]
        out.append(V('C03', 'x_not_the_named_point', site, 'x differs from point %d by %.3e (matches points %s)' % (
            P, float(np.max(np.abs(np.asarray(x, dtype=float) - xp))), really[:4])))
    reps = [c.reply for c in cs if c.reply is not None]
    if reps:
        with np.errstate(all='ignore'):
            mean = np.mean(np.array(reps), axis=0)
            rtol = 32 * EPS * max(1.0, float(np.nanmax(np.abs(np.array(reps)))) if np.any(np.isfinite(np.array(reps))) else 1.0)
        r = np.asarray(resid, dtype=float)
        ok = r.shape == mean.shape and bool(np.all((np.abs(r - mean) <= rtol) | (r == mean) | (np.isnan(r) & np.isnan(mean))))
        if not ok:
            out.append(V('C03', 'resid_not_mean_of_samples', site, 'resid differs from the mean of the %d replies at point %d by %.3e' % (
                len(reps), P, float(np.nanmax(np.abs(r - mean))) if r.shape == mean.shape else -1)))
    with np.errstate(all='ignore'):
        r = np.asarray(resid, dtype=float)
        f = float(np.dot(r, r))
        hv = hval(H, x)
        want = f + hv
    o = float(obj)
    lam = H.env.reg['lam'] if H.env.reg is not None else 0.0
    tol = 1e-12 * abs(want) + 64 * EPS * lam * (float(np.sum(np.abs(np.asarray(x, dtype=float)))) + 1.0)
    if not (o == want or (math.isnan(o) and math.isnan(want)) or abs(o - want) <= tol):
        out.append(V('C03', 'obj_not_sumsq_plus_h', site, 'obj=%r but sum(resid^2)+h(x)=%r (h=%r)' % (o, want, hv)))
    return out


def check_C03(H):
    out = []
    if not has_solution(H):
        return out
    s = H.soln
    pts = point_table(H)
    xtol = _xtol(H)
    P = s.xmin_eval_num
    try:
        P = int(P)
    except Exception:
        return [V('C03', 'evalnum_not_integer', 'soln', 'xmin_eval_num=%r' % (P,))]
    out += _check_solution_triple(H, s.x, s.resid, s.obj, P, int(s.nx), 'exit:' + H.exit_route()[:40], pts, xtol)
    # every-iteration form (only when the probe ran)
    if not out:
        for snap in H.iters:
            if snap.final is None or snap.final[0] is None or isinstance(snap.final[0], str):
                continue
            x, r, obj, evn, ns = snap.final
            sub = {}
            for j, cs in pts.items():
                cc = [c for c in cs if c.seq <= snap.seq]
                if cc:
                    sub[j] = cc
            v = _check_solution_triple(H, x, r, obj, evn, snap.nx, 'iteration', sub, xtol)
            if v:
                for vv in v:
                    vv['detail'] = 'at iteration %d (nf=%d): %s' % (snap.it, snap.nf, vv['detail'])
                out += v
                break
    return out


# ---------------------------------------------------------------------------------------------------------------
# C04 the best point is never lost (deterministic objective, no averaging)
# ---------------------------------------------------------------------------------------------------------------

def _F_list(H):
    res = []
    for c in H.calls:
        if c.reply is None:
            res.append((c, float('nan')))
        else:
            res.append((c, Fvalue(H, c.reply, c.x)))
    return res


def _le(a, b, H, x=None):
    lam = H.env.reg['lam'] if H.env.reg is not None else 0.0
    xs = (float(np.sum(np.abs(x))) if x is not None else 0.0)
    return a <= b + 1e-12 * abs(b) + 64 * EPS * lam * (xs + 1.0) + 1e-300


def check_C04(H):
    out = []
    if not deterministic_world(H) or not has_solution(H):
        return out
    s = H.soln
    FL = _F_list(H)
    fin = [(c, f) for c, f in FL if math.isfinite(f)]
    obj = float(s.obj)
    if fin:
        cbest, fbest = min(fin, key=lambda t: t[1])
        if not _le(obj, fbest, H, cbest.x):
            out.append(V('C04', 'best_point_lost', cbest.site, 'soln.obj=%r > F=%r recorded at evaluation %d (%s), exit %s' % (
                obj, fbest, cbest.k, cbest.site, H.exit_route()[:50])))
        c1, f1 = FL[0]
        if math.isfinite(f1) and not _le(obj, f1, H, c1.x):
            out.append(V('C04', 'worse_than_x0', 'x0', 'soln.obj=%r > f(x0)=%r' % (obj, f1)))
    # per run: what each run returned is no worse than anything that run evaluated
    for j, rr in enumerate(H.run_returns):
        if rr is None:
            continue
        robj = rr[0]
        fr = [(c, f) for c, f in fin if c.run == j]
        if fr:
            cb, fb = min(fr, key=lambda t: t[1])
            if not _le(robj, fb, H, cb.x):
                out.append(V('C04', 'run_lost_best_point', cb.site, 'run %d returned obj=%r > F=%r recorded at evaluation %d (%s)' % (j, robj, fb, cb.k, cb.site)))
        if math.isfinite(robj) and not _le(obj, robj, H):
            out.append(V('C04', 'later_run_worse', 'hard_restart_merge', 'soln.obj=%r > obj=%r returned by run %d' % (obj, robj, j)))
    # every iteration
    if not out:
        best = float('inf')
        bestc = None
        idx = 0
        for snap in H.iters:
            while idx < len(FL) and FL[idx][0].seq <= snap.seq:
                c, f = FL[idx]
                if math.isfinite(f) and f < best and c.run == snap.run:
                    best, bestc = f, c
                idx += 1
            if snap.final is None or isinstance(snap.final[0], str):
                # without the probe: min(objsave, objopt) from the plain snapshot
                cur = snap.objopt if snap.objsave is None else (min(snap.objopt, snap.objsave) if not math.isnan(snap.objopt) and not math.isnan(snap.objsave) else float('nan'))
                if math.isnan(cur):
                    continue
            else:
                cur = snap.final[2]
            if bestc is not None and bestc.run == snap.run and not _le(cur, best, H, bestc.x) and not math.isnan(cur):
                out.append(V('C04', 'iteration_lost_best_point', bestc.site, 'at iteration %d (nf=%d) best retained value %r > F=%r recorded at evaluation %d (%s)' % (
                    snap.it, snap.nf, cur, best, bestc.k, bestc.site)))
                break
            if snap.run != (bestc.run if bestc is not None else snap.run):
                best, bestc = float('inf'), None
    return out


# ---------------------------------------------------------------------------------------------------------------
# C07(b,c) well-formed result on every exit route; liveness
# ---------------------------------------------------------------------------------------------------------------

_DOC_FLAGS = None
_FALLBACK_FLAGS = ['EXIT_SUCCESS', 'EXIT_MAXFUN_WARNING', 'EXIT_SLOW_WARNING', 'EXIT_FALSE_SUCCESS_WARNING',
                   'EXIT_TR_INCREASE_WARNING', 'EXIT_INPUT_ERROR', 'EXIT_TR_INCREASE_ERROR', 'EXIT_LINALG_ERROR', 'EXIT_EVAL_ERROR']


def documented_flags():
    """Exit-code constants named in the user guide of the tree under test."""
    global _DOC_FLAGS
    if _DOC_FLAGS is None:
        from . import boot
        names = []
        try:
            txt = open(os.path.join(boot.dfols_src(), 'docs', 'userguide.rst')).read()
            for nm in re.findall(r'soln\.(EXIT_[A-Z_]+)', txt):
                if nm not in names:
                    names.append(nm)
        except Exception:
            names = []
        for nm in _FALLBACK_FLAGS:     # the nine constants the property file was written against are always required
            if nm not in names:
                names.append(nm)
        _DOC_FLAGS = names
    return _DOC_FLAGS


_STEMS = {'EXIT_SUCCESS': 'Success', 'EXIT_MAXFUN_WARNING': 'Warning (max evals)', 'EXIT_SLOW_WARNING': 'Warning (slow progress)',
          'EXIT_FALSE_SUCCESS_WARNING': 'Warning (max false good steps)', 'EXIT_TR_INCREASE_WARNING': 'Warning (trust region increase)',
          'EXIT_INPUT_ERROR': 'Error (bad input)', 'EXIT_TR_INCREASE_ERROR': 'Error (trust region increase)',
          'EXIT_LINALG_ERROR': 'Error (linear algebra)', 'EXIT_EVAL_ERROR': 'Error (function evaluation)'}


def check_result_wellformed(H, soln):
    out = []
    site = 'exit:' + H.exit_route()[:50]
    names = documented_flags()
    vals = {}
    for nm in names:
        if not hasattr(soln, nm):
            out.append(V('C07', 'missing_exit_constant', nm, 'result object has no attribute %s (named in the user guide)' % nm))
        else:
            vals[nm] = getattr(soln, nm)
    flag = soln.flag
    import dfols.controller as dc
    for nm in names:
        if nm not in vals and hasattr(dc, nm):
            vals[nm] = getattr(dc, nm)      # constant exists in the library but is not exposed: reported above, once
    mine = [nm for nm, v in vals.items() if v == flag]
    if not mine:
        known = [nm for nm in dir(dc) if nm.startswith('EXIT_') and getattr(dc, nm) == flag]
        out.append(V('C07', 'undocumented_flag', (known[0] if known else 'flag=%r' % (flag,)), 'flag %r (%s) is not one of the documented exit codes; msg=%r' % (flag, known, soln.msg)))
    msg = soln.msg
    if not isinstance(msg, str) or not msg.strip():
        out.append(V('C07', 'empty_message', site, 'msg=%r' % (msg,)))
    elif msg.startswith('Unknown exit flag'):
        out.append(V('C07', 'message_without_stem', site, 'msg=%r' % (msg,)))
    elif mine and mine[0] in _STEMS and not msg.startswith(_STEMS[mine[0]]):
        out.append(V('C07', 'message_wrong_stem', site, 'flag %s but msg=%r' % (mine[0], msg)))
    try:
        txt = str(soln)
        if 'DFO-LS Results' not in txt:
            out.append(V('C07', 'str_malformed', site, txt[:80]))
    except Exception as e:
        out.append(V('C07', 'str_raises', site, '%s: %s' % (type(e).__name__, e)))
    return out


def check_C07_run(H):
    """Valid input: must return (not raise, not hang) a well-formed result."""
    out = []
    if H.stepcap is not None:
        return [V('C07', 'does_not_terminate', 'main_loop', H.stepcap)]
    if H.timeout:
        return out      # wall-clock guard: a harness matter (exit 2), never a verdict - every loop in dfols is bounded except the
        #                 main loop, which the deterministic step cap bounds
    if H.exc is not None:
        if H.injected is not None and H.exc is H.injected:
            return out
        nan_delivered = any(c.reply is not None and np.any(np.isnan(c.reply)) for c in H.calls)
        if isinstance(H.exc, np.linalg.LinAlgError) and bool(user_param(H, 'interpolation.throw_error_on_nans', False)) and nan_delivered:
            return out      # documented opt-in: raise on NaN
        return [V('C07', 'raises', H.exc_site, '%s: %s' % (type(H.exc).__name__, str(H.exc)[:120]))]
    if H.soln is None:
        return [V('C07', 'no_result', 'solve', 'solve returned None')]
    out += check_result_wellformed(H, H.soln)
    if H.soln.flag == getattr(H.soln, 'EXIT_INPUT_ERROR', -1):
        out.append(V('C07', 'valid_input_rejected', 'solve', 'input error for a documented-domain call: %r' % (H.soln.msg,)))
    return out


# ---------------------------------------------------------------------------------------------------------------
# C08 bad objective values
# ---------------------------------------------------------------------------------------------------------------

def check_C08(H):
    out = []
    fired = [c for c in H.calls if c.fault is not None]
    if not fired and 'nanregion' not in S.features(H.scn):
        bad = [c for c in H.calls if c.reply is not None and not np.all(np.isfinite(c.reply))]
        if not bad:
            return out
    first_bad = None
    for c in H.calls:
        if c.raised or (c.reply is not None and (not np.all(np.isfinite(c.reply)) or float(np.max(np.abs(c.reply))) >= 1e150)):
            first_bad = c
            break
    site = first_bad.site if first_bad is not None else 'none'
    kind = (first_bad.fault or 'world') if first_bad is not None else 'none'
    # (1) terminates, does not raise
    if H.stepcap is not None:
        return [V('C08', 'does_not_terminate', 'main_loop', '%s after %s at evaluation %s' % (H.stepcap, kind, first_bad.k if first_bad else '?'))]
    if H.timeout:
        return out
    raised_call = next((c for c in H.calls if c.raised), None)
    if raised_call is not None:
        if H.exc is None:
            out.append(V('C08', 'injected_exception_swallowed', raised_call.site, 'objfun raised at evaluation %d but solve returned normally' % raised_call.k))
        elif H.exc is not H.injected:
            out.append(V('C08', 'injected_exception_replaced', H.exc_site, 'caller received %s instead of the injected exception' % type(H.exc).__name__))
        if H.calls[-1] is not raised_call:
            out.append(V('C08', 'evaluations_after_exception', H.calls[raised_call.k].site if raised_call.k < len(H.calls) else '?', '%d further evaluations after the exception at %d' % (len(H.calls) - raised_call.k, raised_call.k)))
        return out
    if H.exc is not None:
        nan_delivered = any(c.reply is not None and np.any(np.isnan(c.reply)) for c in H.calls)
        bad_delivered = any(c.reply is not None and not np.all(np.isfinite(c.reply)) for c in H.calls)
        if isinstance(H.exc, np.linalg.LinAlgError) and bool(user_param(H, 'interpolation.throw_error_on_nans', False)) and (nan_delivered or bad_delivered):
            return out      # documented opt-in (inf - inf inside the model is NaN too)
        return [V('C08', 'raises', H.exc_site, '%s: %s (first bad value: %s at evaluation %s, %s)' % (type(H.exc).__name__, str(H.exc)[:80], kind, first_bad.k if first_bad else '?', site))]
    if not has_solution(H):
        return [V('C08', 'no_solution', 'solve', 'no solution object after a faulted run: %r' % (getattr(H.soln, 'msg', None),))]
    s = H.soln
    # (2) bounds and budget guarantees survive
    for v in check_C01(H):
        out.append(V('C08', 'bounds:' + v['clause'], v['site'], v['detail']))
    for v in check_C02(H):
        if v['clause'] in ('over_budget', 'eval_number_gap', 'point_number_gap', 'same_point_different_x', 'nf_wrong', 'nx_wrong', 'log_mismatch'):
            out.append(V('C08', 'budget:' + v['clause'], v['site'], v['detail']))
    # (3) returned x finite and evaluated
    x = np.asarray(s.x, dtype=float)
    if not np.all(np.isfinite(x)):
        out.append(V('C08', 'x_not_finite', site, 'soln.x=%r' % (x.tolist(),)))
    else:
        xtol = _xtol(H)
        if H.scn.get('sets'):
            # with projections the returned x is the *re-projection* of the stored point: alternating projections stopped by a
            # tolerance are not idempotent, a second run moves the point by up to ~sqrt(tol) (observed 2e-7); both results are
            # within C15's 1e-3 of the same true projection
            xtol = max(xtol, 2e-3)
        if not any(np.all(np.abs(x - c.x) <= xtol) for c in H.calls):
            out.append(V('C08', 'x_never_evaluated', site, 'soln.x matches no recorded evaluation point'))
    # (4) a bad value never displaces a finite best point found earlier
    if first_bad is not None:
        # "evaluations before the fault": completed points (all samples in, averaged) other than the point being sampled when the
        # fault arrived - with averaging a finite first sample of the faulted point does not make that point's value finite
        pts = point_table(H)
        bad_pt = first_bad.ev[1] if first_bad.ev else None
        before = []
        for j, cs in pts.items():
            if j == bad_pt or any(c.k >= first_bad.k for c in cs) or any(c.reply is None for c in cs):
                continue
            with np.errstate(all='ignore'):
                before.append((cs[0], Fvalue(H, np.mean(np.array([c.reply for c in cs]), axis=0), cs[0].x)))
        finb = [(c, f) for c, f in before if math.isfinite(f)]
        obj = float(s.obj)
        if finb:
            if not math.isfinite(obj):
                out.append(V('C08', 'nonfinite_obj_after_finite', site, 'soln.obj=%r although %d finite evaluations preceded the %s at evaluation %d (flag %s)' % (obj, len(finb), kind, first_bad.k, s.flag)))
            elif deterministic_world(H):
                cb, fb = min(finb, key=lambda t: t[1])
                if not _le(obj, fb, H, cb.x):
                    out.append(V('C08', 'finite_best_displaced', site, 'soln.obj=%r > best earlier finite F=%r (evaluation %d) after %s at evaluation %d' % (obj, fb, cb.k, kind, first_bad.k)))
    # (5) success never with non-finite objective
    if s.flag == 0 and not math.isfinite(float(s.obj)):
        out.append(V('C08', 'success_with_nonfinite_obj' + _all_nonfinite_suffix(H), site, 'flag 0 (%s) with obj=%r' % (s.msg, float(s.obj))))
    return out


# ---------------------------------------------------------------------------------------------------------------
# C10 flags and messages tell the truth
# ---------------------------------------------------------------------------------------------------------------

def expected_rhoend(H, nrestarts):
    scale = user_param(H, 'restarts.rhoend_scale', 1.0)
    r = H.eff['rhoend']
    for _ in range(nrestarts):
        r = scale * r
    return r


def check_C10(H):
    out = []
    if not has_solution(H):
        return out
    s = H.soln
    msg = str(s.msg)
    obj = float(s.obj)
    nrest = len(H.restarts)
    site = 'exit:' + msg[:50]
    if int(s.nruns) != 1 + nrest:
        out.append(V('C10', 'nruns_ne_restarts_plus_one', site, 'nruns=%d but %d restarts were performed (%s)' % (int(s.nruns), nrest, [r[0] for r in H.restarts][:6])))
    if 'sufficiently small' in msg and s.flag == 0:
        pts = point_table(H)
        abs_tol = user_param(H, 'model.abs_tol', 1e-12)
        rel_tol = user_param(H, 'model.rel_tol', 1e-20)
        f0 = 0.0
        firsts = {}
        for c in H.calls:
            firsts.setdefault(c.run, c.ev[1] if c.ev else None)
        for run, j in firsts.items():
            if j is None or j not in pts:
                continue
            reps = [c.reply for c in pts[j] if c.reply is not None]
            if reps:
                with np.errstate(all='ignore'):
                    fv = Fvalue(H, np.mean(np.array(reps), axis=0), pts[j][0].x)
                if not math.isnan(fv):
                    f0 = max(f0, fv)       # +inf stays +inf: the statement's threshold is then unbounded
        thr = max(abs_tol, rel_tol * f0) if math.isfinite(f0) else float('inf')
        if not obj <= thr * (1 + 1e-12):
            out.append(V('C10', 'not_sufficiently_small', site, 'obj=%r > max(abs_tol=%g, rel_tol=%g * f0=%g)' % (obj, abs_tol, rel_tol, f0)))
    if 'rho has reached rhoend' in msg and s.flag == 0 and H.controllers:
        ctrl = H.controllers[-1]
        want = expected_rhoend(H, nrest)
        if float(ctrl.rho) != want:
            out.append(V('C10', 'rho_not_rhoend', site, 'rho=%r at exit but rhoend (rescaled over %d restarts)=%r' % (float(ctrl.rho), nrest, want)))
    if s.flag == getattr(s, 'EXIT_MAXFUN_WARNING', 1):
        if len(H.calls) != H.eff['maxfun'] or int(s.nf) != H.eff['maxfun']:
            out.append(V('C10', 'maxfun_warning_but_budget_left', site, 'nf=%d calls=%d maxfun=%d' % (int(s.nf), len(H.calls), H.eff['maxfun'])))
    if 'unsuccessful restarts' in msg:
        mu = user_param(H, 'restarts.max_unsuccessful_restarts', 10)
        if int(s.nruns) < mu:
            out.append(V('C10', 'too_few_runs_for_max_restarts', site, 'nruns=%d < max_unsuccessful_restarts=%d' % (int(s.nruns), mu)))
    if s.flag == 0 and not math.isfinite(obj):
        out.append(V('C10', 'success_with_nonfinite_obj' + _all_nonfinite_suffix(H), site, 'flag 0 with obj=%r' % obj))
    return out


def _all_nonfinite_suffix(H):
    """':no_finite_value' when the objective was non-finite at every evaluation (nothing finite could be returned)."""
    for j, cs in point_table(H).items():
        reps = [c.reply for c in cs if c.reply is not None]
        if reps:
            with np.errstate(all='ignore'):
                if math.isfinite(Fvalue(H, np.mean(np.array(reps), axis=0), cs[0].x)):
                    return ''
    return ':no_finite_value'


# ---------------------------------------------------------------------------------------------------------------
# C11 Jacobian = fit through the evaluations it names
# ---------------------------------------------------------------------------------------------------------------

def check_C11(H, stats=None):
    out = []
    if not has_solution(H) or H.soln.jacobian is None or H.scn['sets']:
        return out
    s = H.soln
    nums = s.jacmin_eval_nums
    if nums is None:
        return out
    nums = [int(v) for v in np.asarray(nums).ravel()]
    n = H.eff['n']
    feats = S.features(H.scn)
    if 'growing' in feats:
        return out
    if len(nums) < n + 1 or any(v <= 0 for v in nums):
        return out   # point set not fully initialised: outside the statement's precondition
    pts = point_table(H)
    site = 'exit:' + H.exit_route()[:40]
    if any(v not in pts for v in nums):
        return [V('C11', 'names_unknown_point', site, 'jacmin_eval_nums=%s but points 1..%d exist' % (nums, int(s.nx)))]
    if len(set(nums)) != len(nums):
        return [V('C11', 'names_duplicate_point', site, 'jacmin_eval_nums=%s' % (nums,))]
    X = np.array([pts[v][0].x for v in nums])
    with np.errstate(all='ignore'):
        R = np.array([np.mean(np.array([c.reply for c in pts[v] if c.reply is not None]), axis=0) for v in nums])
    if not (np.all(np.isfinite(R)) and np.all(np.isfinite(X))):
        return out
    D = X - X[0]
    sc = float(np.max(np.linalg.norm(D, axis=1)))
    if sc == 0.0:
        return out
    Wm = np.hstack([np.ones((len(nums), 1)), D / sc])
    cond = float(np.linalg.cond(Wm))
    if not np.isfinite(cond) or cond > 1e10:
        if stats is not None:
            stats['c11.skipped_illconditioned'] = stats.get('c11.skipped_illconditioned', 0) + 1
        return out
    sol = np.linalg.lstsq(Wm, R, rcond=None)[0]
    J = sol[1:].T / sc
    Jr = np.asarray(s.jacobian, dtype=float)
    if Jr.shape != J.shape:
        return [V('C11', 'jacobian_shape', site, 'shape %s, expected %s' % (Jr.shape, J.shape))]
    nJ = float(np.linalg.norm(J))
    # rounding amplification: conditioning of the point set, and cancellation in (R_j - R_1) relative to |J|*spread
    rmax = float(np.max(np.abs(R)))
    amp = cond * EPS * max(1.0, float(np.max(np.abs(X))) / sc) * max(1.0, rmax / max(nJ * sc, 1e-300))
    err = float(np.linalg.norm(J - Jr))
    tol = (1e3 * amp + 1e-9) * max(nJ, 1e-300)
    if stats is not None:
        stats['c11.checked'] = stats.get('c11.checked', 0) + 1
        stats['c11.max_err_over_tol'] = max(stats.get('c11.max_err_over_tol', 0.0), err / tol if tol > 0 else 0.0)
    if err > tol:
        out.append(V('C11', 'jacobian_not_fit_of_named_points', site, 'relative error %.3e, tolerance %.3e (cond %.2e, nruns %d, scaling %s)' % (
            err / max(nJ, 1e-300), tol / max(nJ, 1e-300), cond, int(s.nruns), H.eff['scaling'])))
    elif H.scn['world']['family'] == 'lin' and H.scn['world'].get('nan_region') is None and H.scn['env']['noise']['kind'] == 'none' and not H.calls_faulted():
        A = np.array(H.scn['world']['A'], dtype=float)
        errA = float(np.linalg.norm(Jr - A))
        nA = float(np.linalg.norm(A))
        if errA > (1e3 * amp + 1e-9) * max(nA, 1e-300):
            out.append(V('C11', 'jacobian_not_A_for_linear_residuals', site, 'relative error %.3e' % (errA / max(nA, 1e-300))))
    return out


# ---------------------------------------------------------------------------------------------------------------
# C18 radii and the diagnostic table
# ---------------------------------------------------------------------------------------------------------------

DIAG_COLUMNS = ['xk', 'rk', 'fk', 'rho', 'delta', 'interpolation_error', 'interpolation_condition_number',
                'interpolation_change_J_norm', 'interpolation_total_residual', 'poisedness', 'max_distance_xk',
                'norm_gk', 'norm_sk', 'nruns', 'nf', 'nx', 'npt', 'nsamples', 'iter_this_run', 'iters_total',
                'iter_type', 'ratio', 'slow_iter']


def check_C18(H):
    out = []
    if not has_solution(H) or H.soln.diagnostic_info is None:
        return out
    s = H.soln
    df = s.diagnostic_info
    site = 'diagnostic_info'
    want_cols = [c for c in DIAG_COLUMNS if c not in ('xk', 'rk')]
    if user_param(H, 'logging.save_xk', False):
        want_cols.append('xk')
    if user_param(H, 'logging.save_rk', False):
        want_cols.append('rk')
    if sorted(df.columns) != sorted(want_cols):
        out.append(V('C18', 'columns', site, 'columns %s differ from the documented list' % sorted(set(df.columns) ^ set(want_cols))))
        return out
    nrows = len(df)
    # one row per iteration whose interpolation succeeded: cross-check with the harness' own iteration events
    if nrows == 0:
        return out
    rho = df['rho'].values.astype(float)
    delta = df['delta'].values.astype(float)
    runs = df['nruns'].values
    rhobeg = H.eff['rhobeg']
    scale = user_param(H, 'restarts.rhoend_scale', 1.0)

    def first(mask):
        return int(np.argmax(mask))
    if np.any(~(rho > 0)):
        out.append(V('C18', 'rho_not_positive', site, 'row %d rho=%r' % (first(~(rho > 0)), rho[first(~(rho > 0))])))
    if np.any(delta < rho):
        i = first(delta < rho)
        out.append(V('C18', 'delta_below_rho', site, 'row %d delta=%r < rho=%r' % (i, delta[i], rho[i])))
    if np.any(delta > 1e10):
        out.append(V('C18', 'delta_above_cap', site, 'row %d delta=%r' % (first(delta > 1e10), delta[first(delta > 1e10)])))
    if np.any(rho > rhobeg):
        i = first(rho > rhobeg)
        out.append(V('C18', 'rho_above_rhobeg', site, 'row %d rho=%r > rhobeg=%r' % (i, rho[i], rhobeg)))
    for i in range(nrows):
        lim = expected_rhoend(H, int(runs[i]))
        if rho[i] < lim:
            out.append(V('C18', 'rho_below_rhoend', site, 'row %d (run %d) rho=%r < rescaled rhoend=%r' % (i, int(runs[i]), rho[i], lim)))
            break
    reset_rho = bool(user_param(H, 'growing.reset_rho', False))
    det = deterministic_world(H) and not H.calls_faulted() and 'nanregion' not in S.features(H.scn)
    fk = df['fk'].values.astype(float)
    for r_ in np.unique(runs):
        m = (runs == r_)
        rr = rho[m]
        if not reset_rho and np.any(np.diff(rr) > 0):
            out.append(V('C18', 'rho_increased_within_run', site, 'run %d' % int(r_)))
        if det:
            ff = fk[m]
            with np.errstate(all='ignore'):
                # the same sum of squares is recomputed for the saved copy and for the table row of a point: the two dot products can
                # differ in the last bit (memory layout), so an "increase" of a few ulp is no increase (seen once: 1 ulp, soak seed 10)
                d = np.diff(ff) - 8 * EPS * np.abs(ff[:-1])
            if np.any(d > 0):
                i = first(d > 0)
                out.append(V('C18', 'fk_increased_within_run', site, 'run %d: fk %r -> %r' % (int(r_), ff[i], ff[i + 1])))
        its = df['iter_this_run'].values[m]
        if list(its) != list(range(int(its[0]), int(its[0]) + len(its))):
            # soft restarts reset the per-run iteration counter to 0; consecutive within a run
            out.append(V('C18', 'iter_this_run_not_consecutive', site, 'run %d: %s' % (int(r_), list(its)[:12])))
    if list(df['iters_total'].values) != list(range(nrows)):
        out.append(V('C18', 'iters_total_not_consecutive', site, str(list(df['iters_total'].values)[:12])))
    for col in ('nf', 'nx', 'nruns'):
        v = df[col].values
        if np.any(np.diff(v) < 0):
            out.append(V('C18', col + '_decreased', site, str(list(v)[:12])))
    if df['nf'].values[-1] > int(s.nf) or df['nx'].values[-1] > int(s.nx) or df['nruns'].values[-1] > int(s.nruns):
        out.append(V('C18', 'counter_exceeds_final', site, 'last row nf=%d nx=%d nruns=%d, final %d %d %d' % (
            df['nf'].values[-1], df['nx'].values[-1], df['nruns'].values[-1], int(s.nf), int(s.nx), int(s.nruns))))
    npts = df['npt'].values
    max_npt = max(H.eff['npt'], int(user_param(H, 'restarts.max_npt', H.eff['npt'])))
    if np.any(npts < 2) or np.any(npts > max_npt):
        out.append(V('C18', 'npt_out_of_range', site, 'npt in [%d,%d], allowed [2,%d]' % (npts.min(), npts.max(), max_npt)))
    # rows vs the harness' iteration events: a row is written after a successful interpolation, so #rows <= #iterations,
    # and each row must agree with the iteration event it belongs to
    its = H.iters
    expected_rows = sum(1 for t in its if t.interp_ok)
    if all(t.interp_ok is not None for t in its) and nrows != expected_rows:
        out.append(V('C18', 'row_count', site, '%d rows but %d iterations with a successful fit were observed' % (nrows, expected_rows)))
    if nrows > len(its):
        out.append(V('C18', 'more_rows_than_iterations', site, '%d rows, %d iterations observed' % (nrows, len(its))))
    else:
        j = 0
        nf_col = df['nf'].values
        for i in range(nrows):
            while j < len(its) and not (its[j].nf == int(nf_col[i]) and its[j].rho == rho[i] and its[j].delta == delta[i]):
                j += 1
            if j >= len(its):
                out.append(V('C18', 'row_without_iteration', site, 'row %d (nf=%d rho=%r delta=%r) matches no observed iteration' % (i, int(nf_col[i]), rho[i], delta[i])))
                break
            j += 1
    return out


# ---------------------------------------------------------------------------------------------------------------
# C19 caller data untouched (the reproducibility half lives in the session leg)
# ---------------------------------------------------------------------------------------------------------------

def check_C19_caller(H):
    if H.caller_after_ok is False:
        return [V('C19', 'caller_data_modified', H.caller_diff or 'args', 'an argument of solve() was modified in place (%s), exit %s' % (H.caller_diff, H.exit_route()[:40]))]
    return []


# ---------------------------------------------------------------------------------------------------------------
# C20 JSON round trip and printing
# ---------------------------------------------------------------------------------------------------------------

def _arr_equal(a, b):
    if a is None or b is None:
        return a is None and b is None
    a = np.asarray(a)
    b = np.asarray(b)
    if a.shape != b.shape:
        return False
    if a.dtype.kind in 'fc' or b.dtype.kind in 'fc':
        return bool(np.array_equal(a.astype(float), b.astype(float), equal_nan=True))
    return bool(np.array_equal(a, b))


def _cell_equal(u, v):
    def isnull(z):
        return z is None or (isinstance(z, float) and math.isnan(z)) or (isinstance(z, np.floating) and np.isnan(z))
    if isnull(u) and isnull(v):
        return True
    if isnull(u) or isnull(v):
        return False
    if isinstance(u, (list, tuple, np.ndarray)) or isinstance(v, (list, tuple, np.ndarray)):
        return _arr_equal(np.asarray(u, dtype=float), np.asarray(v, dtype=float))
    try:
        return bool(u == v)
    except Exception:
        return False


def _plain(obj):
    """True iff obj is made of plain JSON-able Python types only."""
    if obj is None or isinstance(obj, (bool, str)):
        return True
    if type(obj) in (int, float):
        return True
    if isinstance(obj, list):
        return all(_plain(o) for o in obj)
    if isinstance(obj, dict):
        return all(isinstance(k, (str, int)) and _plain(v) for k, v in obj.items())
    return False


def check_roundtrip(soln, site):
    import dfols
    out = []
    try:
        d = soln.to_dict(True)
    except Exception as e:
        return [V('C20', 'to_dict_raises', site, '%s: %s' % (type(e).__name__, str(e)[:100]))]
    if not _plain(d):
        out.append(V('C20', 'not_plain_data', site, 'to_dict() contains non-plain Python objects'))
    try:
        js = json.dumps(d, allow_nan=False)
    except Exception as e:
        inf_at = _first_inf(d)
        if inf_at is not None and isinstance(e, ValueError):
            return out + [V('C20', 'not_strict_json:inf', 'field:' + inf_at, 'to_dict(replace_nan=True) still holds +-inf in %s: %s' % (inf_at, str(e)[:80]))]
        return out + [V('C20', 'not_strict_json:' + type(e).__name__, site, '%s: %s' % (type(e).__name__, str(e)[:100]))]
    try:
        r = dfols.OptimResults.from_dict(json.loads(js))
    except Exception as e:
        return out + [V('C20', 'from_dict_raises', site, '%s: %s' % (type(e).__name__, str(e)[:100]))]
    for a in ('x', 'resid', 'jacobian', 'jacmin_eval_nums'):
        if not _arr_equal(getattr(soln, a), getattr(r, a)):
            out.append(V('C20', 'field_differs:' + a, site, '%r vs %r' % (getattr(soln, a), getattr(r, a))))
    for a in ('nf', 'nx', 'nruns', 'flag', 'msg', 'xmin_eval_num'):
        if getattr(soln, a) != getattr(r, a):
            out.append(V('C20', 'field_differs:' + a, site, '%r vs %r' % (getattr(soln, a), getattr(r, a))))
        if a != 'msg' and type(d[a]) is not int:
            out.append(V('C20', 'field_not_plain_int:' + a, site, repr(type(d[a]))))
    o1 = float(soln.obj)
    o2 = r.obj
    o2f = float('nan') if o2 is None else float(o2)
    if not (o1 == o2f or (math.isnan(o1) and math.isnan(o2f))):
        out.append(V('C20', 'field_differs:obj', site, '%r vs %r' % (o1, o2)))
    d1 = soln.diagnostic_info
    d2 = r.diagnostic_info
    if (d1 is None) != (d2 is None):
        out.append(V('C20', 'diagnostic_table_lost', site, 'original %s, reloaded %s' % (type(d1).__name__, type(d2).__name__)))
    elif d1 is not None:
        if list(d1.columns) != list(d2.columns) or len(d1) != len(d2):
            out.append(V('C20', 'diagnostic_table_shape', site, '%s x %d vs %s x %d' % (list(d1.columns), len(d1), list(d2.columns), len(d2))))
        else:
            for col in d1.columns:
                a = list(d1[col].values)
                b = list(d2[col].values)
                bad = [i for i, (u, v) in enumerate(zip(a, b)) if not _cell_equal(u, v)]
                if bad:
                    out.append(V('C20', 'diagnostic_table_differs:' + col, site, 'row %d: %r vs %r' % (bad[0], a[bad[0]], b[bad[0]])))
                    break
    try:
        s1 = str(soln)
        s2 = str(r)
        if s1 != s2:
            out.append(V('C20', 'str_differs', site, _strdiff(s1, s2)))
    except Exception as e:
        out.append(V('C20', 'str_raises', site, '%s: %s' % (type(e).__name__, str(e)[:100])))
    # non-strict form
    try:
        d0 = soln.to_dict(False)
        r0 = dfols.OptimResults.from_dict(json.loads(json.dumps(d0)))
        for a in ('x', 'resid', 'jacobian'):
            if not _arr_equal(getattr(soln, a), getattr(r0, a)):
                out.append(V('C20', 'nonstrict_field_differs:' + a, site, ''))
    except Exception as e:
        out.append(V('C20', 'nonstrict_roundtrip_raises', site, '%s: %s' % (type(e).__name__, str(e)[:100])))
    return out


def _first_inf(d, path=''):
    if isinstance(d, float) and math.isinf(d):
        return path or 'value'
    if isinstance(d, dict):
        for k, v in d.items():
            # diagnostic table: report the column, not the row
            r = _first_inf(v, (path + '.' if path else '') + str(k) if not path.startswith('diagnostic_info.') else path)
            if r:
                return r
    if isinstance(d, list):
        for v in d:
            r = _first_inf(v, path)
            if r:
                return r
    return None


def _strdiff(a, b):
    la, lb = a.split('\n'), b.split('\n')
    for x, y in zip(la, lb):
        if x != y:
            return '%r vs %r' % (x[:80], y[:80])
    return 'line count %d vs %d' % (len(la), len(lb))


FIELD_FAULTS = ['x_nan', 'resid_nan', 'obj_nan', 'jacobian_none', 'jacobian_nan', 'jacmin_eval_nums_none', 'diagnostic_none',
                'long_resid', 'big_jacobian', 'long_jacmin_eval_nums', 'all_nan', 'obj_zero', 'all_zero']


def apply_field_fault(soln, name):
    """Returns a shallow copy of a real result with one field replaced (the 'flipped stored value' of this library)."""
    import copy
    s = copy.copy(soln)
    if name in ('x_nan', 'all_nan'):
        s.x = np.array(s.x, dtype=float, copy=True)
        s.x[0] = np.nan
    if name in ('resid_nan', 'all_nan'):
        s.resid = np.array(s.resid, dtype=float, copy=True)
        s.resid[-1] = np.nan
    if name in ('obj_nan', 'all_nan'):
        s.obj = float('nan')
    if name in ('obj_zero', 'all_zero'):      # falsy but perfectly legal values (start at an exact root): seeded change C20e (`obj or nan`)
        s.obj = 0.0
    if name == 'all_zero':
        s.x = np.zeros_like(np.asarray(s.x, dtype=float))
        s.resid = np.zeros_like(np.asarray(s.resid, dtype=float))
        if s.jacobian is not None:
            s.jacobian = np.zeros_like(np.asarray(s.jacobian, dtype=float))
    if name == 'jacobian_none':
        s.jacobian = None
    if name in ('jacobian_nan', 'all_nan') and s.jacobian is not None:
        s.jacobian = np.array(s.jacobian, dtype=float, copy=True)
        s.jacobian[0, 0] = np.nan
    if name == 'jacmin_eval_nums_none':
        s.jacmin_eval_nums = None
    if name == 'diagnostic_none':
        s.diagnostic_info = None
    if name == 'long_resid':         # beyond the printing threshold (100)
        s.resid = np.linspace(-1.0, 1.0, 137)
        s.resid[5] = np.nan
    if name == 'big_jacobian':       # beyond the printing threshold (200 entries)
        s.jacobian = np.arange(21 * 11, dtype=float).reshape(21, 11) / 7.0
    if name == 'long_jacmin_eval_nums':
        s.jacmin_eval_nums = np.arange(1, 121, dtype=int)
    return s


def check_C20(H):
    if not has_solution(H):
        return []
    if user_param(H, 'logging.save_xk', False) or user_param(H, 'logging.save_rk', False):
        site = 'save_xk_rk'
    else:
        site = 'exit:%s' % (int(H.soln.flag),)
    ff = H.scn.get('field_fault')
    if ff:
        return check_roundtrip(apply_field_fault(H.soln, ff), 'field_fault:' + ff)
    return check_roundtrip(H.soln, site)


def c20_field_fault_post(res, H, scn):
    """Swarm post-hook: every field fault on every 8th real result (each variant is its own replayable scenario)."""
    if not has_solution(H):
        return
    res['stats']['c20.results_roundtripped'] = res['stats'].get('c20.results_roundtripped', 0) + 1
    if (res['runs'] % 4) != 0:
        return
    for ff in FIELD_FAULTS:
        vs = check_roundtrip(apply_field_fault(H.soln, ff), 'field_fault:' + ff)
        res['stats']['c20.field_faults_injected'] = res['stats'].get('c20.field_faults_injected', 0) + 1
        res['stats']['c20.ff.' + ff] = res['stats'].get('c20.ff.' + ff, 0) + 1
        for v in vs:
            s2 = S.clone(scn)
            s2['field_fault'] = ff
            rec = dict(v)
            rec['scenario'] = s2
            rec['kind'] = 'solve'
            from . import legs as _L
            rec['features'] = S.features(scn) + ['field_fault'] + _L.run_facts(H)
            res['violations'].append(rec)


# attach a tiny helper to History without importing sim here
def _calls_faulted(self):
    return any(c.fault is not None for c in self.calls)


def install_history_helpers():
    from . import sim
    sim.History.calls_faulted = _calls_faulted


install_history_helpers()

ORACLES = {
    'C01': check_C01, 'C02': check_C02, 'C03': check_C03, 'C04': check_C04, 'C07': check_C07_run, 'C08': check_C08,
    'C10': check_C10, 'C11': check_C11, 'C18': check_C18, 'C19': check_C19_caller, 'C20': check_C20,
}


# ---------------------------------------------------------------------------------------------------------------
# C09 convex constraints at every evaluation (needs probe 'dyk')
# ---------------------------------------------------------------------------------------------------------------

def check_C09(H):
    out = []
    sets = H.scn.get('sets') or []
    if not sets or not H.calls:
        return out
    lo, hi = caller_bounds(H)
    p = len(sets) + 1
    by_out = getattr(H, 'dyk_by_out', {})
    first = H.calls[0]
    x0 = np.array(H.scn['x0'], dtype=float)
    feasible = all(W.set_distance(s, x0) == 0.0 for s in sets) and (lo is None or not np.any(x0 < lo)) and (hi is None or not np.any(x0 > hi))
    sol = H.dyk_solver_out[0] if H.dyk_solver_out else None
    if feasible:
        if not np.all(np.abs(first.x - x0) <= 1e-12 * max(1.0, float(np.max(np.abs(x0))))):
            out.append(V('C09', 'feasible_x0_moved', 'x0', 'first evaluation differs from the feasible x0 by %.3e' % float(np.max(np.abs(first.x - x0)))))
    else:
        if sol is None:
            out.append(V('C09', 'infeasible_x0_not_projected', 'x0', 'no projection of x0 was computed'))
        elif first.x.tobytes() != sol.xout.tobytes():
            out.append(V('C09', 'infeasible_x0_not_projected', 'x0', 'first evaluation is not the projection of the infeasible x0 (differs by %.3e)' % float(np.max(np.abs(first.x - sol.xout)))))
    stats = H.insitu_counts
    # "tol is the Dykstra tolerance": the documented default (1e-10, which the model-level calls always use) or the user's
    # dykstra.d_tol; likewise the sweep cap.  A call made with a looser tolerance / smaller cap than any documented one is not
    # "the alternating-projection routine meeting its stopping rule" in the sense of the statement.
    tol_doc = max(1e-10, float(user_param(H, 'dykstra.d_tol', 1e-10)))
    cap_doc = min(100, int(user_param(H, 'dykstra.max_iters', 100)))
    checked_calls = set()

    def check_call_settings(d, site_):
        if id(d) in checked_calls:
            return
        checked_calls.add(id(d))
        if d.tol > tol_doc * (1 + 1e-9):
            out.append(V('C09', 'tolerance_not_the_dykstra_tolerance', site_, 'projection run with tol=%g, documented tolerance is %g' % (d.tol, tol_doc)))
        elif d.max_iter < cap_doc:
            out.append(V('C09', 'sweep_cap_below_documented', site_, 'projection run with max_iter=%r, documented cap is %d' % (d.max_iter, cap_doc)))
    if sol is not None:
        check_call_settings(sol, 'x0')
    for c in H.calls:
        x = c.x
        if c.k == 1 or x.tobytes() == first.x.tobytes():
            d = sol if (sol is not None and x.tobytes() == sol.xout.tobytes()) else by_out.get(x.tobytes())
            if d is None:
                continue
        else:
            d = by_out.get(x.tobytes())
            if d is None:
                out.append(V('C09', 'evaluated_point_not_a_projection_output', c.site, 'evaluation %d (%s) is not the output of any recorded alternating-projection call' % (c.k, c.site)))
                if len(out) >= 3:
                    break
                continue
        stats['c09.points_checked'] = stats.get('c09.points_checked', 0) + 1
        check_call_settings(d, c.site)
        if np.any(np.isnan(x)):
            out.append(V('C09', 'evaluated_point_nan', c.site, 'evaluation %d is NaN' % c.k))
            continue
        if (lo is not None and np.any(x < lo)) or (hi is not None and np.any(x > hi)):
            out.append(V('C09', 'outside_bound_box', c.site, 'evaluation %d violates the bound box although the box is projected last' % c.k))
        if d.sweeps < d.max_iter:
            stats['c09.stopped_by_rule'] = stats.get('c09.stopped_by_rule', 0) + 1
            bound = math.sqrt(d.p * d.tol)
            worst = max(W.set_distance(s, x) for s in sets)
            H.c09_maxratio = max(getattr(H, 'c09_maxratio', 0.0), worst / bound if bound > 0 else 0.0)
            if worst > bound * (1 + 1e-9) + 16 * EPS * max(1.0, float(np.max(np.abs(x))), float(np.max(np.abs(d.xin)))) * d.p:
                out.append(V('C09', 'outside_tolerance', c.site, 'evaluation %d is %.3e from a constraint set; sqrt(p*tol)=%.3e (p=%d, tol=%g, sweeps=%d)' % (c.k, worst, bound, d.p, d.tol, d.sweeps)))
        else:
            stats['c09.hit_sweep_cap'] = stats.get('c09.hit_sweep_cap', 0) + 1
        if len(out) >= 3:
            break
    if has_solution(H):
        x = np.asarray(H.soln.x, dtype=float)
        if (lo is not None and np.any(x < lo)) or (hi is not None and np.any(x > hi)):
            out.append(V('C09', 'solution_outside_bound_box', 'soln.x', 'returned x violates the bound box'))
    return out


# ---------------------------------------------------------------------------------------------------------------
# C14 initial interpolation set (history prefix)
# ---------------------------------------------------------------------------------------------------------------

def check_C14(H):
    out = []
    feats = S.features(H.scn)
    if any(f in feats for f in ('sets', 'random_init', 'growing', 'parallel_init')) or any(f.startswith('reg:') for f in feats):
        return out
    n, npt, rhobeg = H.eff['n'], H.eff['npt'], H.eff['rhobeg']
    if npt > 2 * n + 1:
        return out
    pts = point_table(H)
    if any(j not in pts for j in range(1, npt + 1)) or any(c.run != 0 for j in range(1, npt + 1) for c in pts[j]):
        return out
    lo, hi = caller_bounds(H)
    x0 = np.array(H.scn['x0'], dtype=float)
    proj = x0.copy()
    if lo is not None:
        proj = np.maximum(proj, lo)
    if hi is not None:
        proj = np.minimum(proj, hi)
    X = np.array([pts[j][0].x for j in range(1, npt + 1)])
    H.insitu_counts['c14.prefixes_checked'] = H.insitu_counts.get('c14.prefixes_checked', 0) + 1
    scaling = H.eff['scaling']
    if scaling:
        ok = np.all(np.abs(X[0] - proj) <= 4 * EPS * np.maximum(np.abs(proj), np.maximum(np.abs(lo), np.abs(hi))))
    else:
        ok = X[0].tobytes() == proj.tobytes() or bool(np.all(X[0] == proj))
    if not ok:
        out.append(V('C14', 'first_point_not_projected_x0', 'x0', 'first evaluation differs from clip(x0, lower, upper) by %.3e' % float(np.max(np.abs(X[0] - proj)))))
    if (lo is not None and np.any(X < lo)) or (hi is not None and np.any(X > hi)) or np.any(np.isnan(X)):
        out.append(V('C14', 'initial_point_outside_bounds', 'initialise_coordinate_directions', 'an initial point violates the bounds'))
        return out
    if scaling:
        Z = (X - lo) / (hi - lo)
    else:
        Z = X
    dist = np.linalg.norm(Z[1:] - Z[0], axis=1)
    slack = 1e-9 + (64 * EPS * max(1.0, float(np.max(np.abs(Z)))) / rhobeg)
    if np.any(dist < 0.01 * rhobeg * (1 - slack)) or np.any(dist > 2.0 * rhobeg * (1 + slack)):
        j = int(np.argmax(np.maximum(0.01 * rhobeg - dist, dist - 2.0 * rhobeg)))
        out.append(V('C14', 'initial_point_distance', 'initialise_coordinate_directions', 'point %d is %.6g*rhobeg from x0 (allowed [0.01, 2])' % (j + 2, dist[j] / rhobeg)))
    M = np.hstack([np.ones((npt, 1)), (Z - Z[0]) / rhobeg])
    cond = float(np.linalg.cond(M))
    H.c14_cond = max(getattr(H, 'c14_cond', 0.0), cond if np.isfinite(cond) else 1e300)
    if not (cond < 1e4) or np.linalg.matrix_rank(M) < n + 1:
        out.append(V('C14', 'initial_set_ill_poised', 'initialise_coordinate_directions', 'cond of the scaled interpolation matrix = %.3e (rank %d of %d)' % (cond, np.linalg.matrix_rank(M), n + 1)))
    return out


ORACLES['C09'] = check_C09
ORACLES['C14'] = check_C14
