"""Optional in-situ probes: wrappers at internal seams (names as bound in each importing module, or class
attributes).  Each wrapper passes the *original* objects to the real routine, never alters a return value, and
evaluates its oracle on copies.  Oracles hosted here are the class-B properties (C12-C15) and the every-iteration
forms of C03/C04/C16."""
import inspect

import numpy as np

from . import worlds as W

EPS = W.EPS


def install(instr, H, probes, iter_hooks):
    if 'final' in probes:
        iter_hooks.append(_hook_final)
    if 'dyk' in probes or 'c15' in probes:
        _install_dykstra(instr, H, check_contract=('c15' in probes))
    if 'c12' in probes:
        _install_trsbox(instr, H)
    if 'c13' in probes:
        _install_c13(instr, H)
    if 'c14' in probes:
        _install_dirs(instr, H)
    if 'c19' in probes:
        import dfols.controller as dc
        orig_qr = dc.qr_rank

        def qr_rank(*a, **kw):
            H.qr_rank_calls = getattr(H, 'qr_rank_calls', 0) + 1
            return orig_qr(*a, **kw)
        instr._patch(dc, 'qr_rank', qr_rank)
    if 'c16' in probes:
        _install_c16(instr, H)


# ---------------------------------------------------------------------------------------------------------------
# every-iteration snapshot of what the solver would return right now (C03 / C04 every-iteration form)
# ---------------------------------------------------------------------------------------------------------------

def _hook_final(H, ctrl, model, snap):
    try:
        x, r, obj, jac, ns, evn, jev = model.get_final_results()
    except Exception as e:  # the probe must never break the run
        snap.final = ('error', repr(e))
        return
    from dfols.util import remove_scaling
    snap.final = (np.array(remove_scaling(x, ctrl.scaling_changes), dtype=float, copy=True), np.array(r, dtype=float, copy=True),
                  float(obj), int(evn), int(ns))


# ---------------------------------------------------------------------------------------------------------------
# Dykstra wrapper (C09, C15)
# ---------------------------------------------------------------------------------------------------------------

def _install_dykstra(instr, H, check_contract):
    import dfols.controller as dc
    import dfols.model as dm
    import dfols.solver as ds
    import dfols.trust_region as dt
    from . import sim
    import sys

    for mod, modname in ((dm, 'model'), (dc, 'controller'), (ds, 'solver'), (dt, 'trust_region')):
        orig = mod.dykstra
        sig = inspect.signature(orig)

        def dyk(*a, _orig=orig, _modname=modname, _sig=sig, **kw):
            # signature-transparent: arguments are bound to the signature of the routine under test exactly as the caller passed
            # them; only the projector list is replaced by counting pass-throughs
            if H.in_probe:
                return _orig(*a, **kw)
            ba = _sig.bind(*a, **kw)
            names = list(_sig.parameters)
            P = ba.arguments[names[0]]
            x0 = ba.arguments[names[1]]
            full = _sig.bind(*a, **kw)
            full.apply_defaults()
            max_iter = full.arguments.get('max_iter', 100)
            tol = full.arguments.get('tol', 1e-10)
            counts = [0] * len(P)

            def wrap(i, f):
                def g(w):
                    counts[i] += 1
                    return f(w)
                return g
            P2 = [wrap(i, f) for i, f in enumerate(P)]
            xin = np.array(x0, dtype=float, copy=True)
            ba.arguments[names[0]] = P2
            out = _orig(*ba.args, **ba.kwargs)
            d = sim.DykCall()
            d.seq = H.seq
            d.mod = _modname
            d.func = sys._getframe(1).f_code.co_name
            d.p = len(P)
            d.tol = float(tol)
            d.max_iter = max_iter if isinstance(max_iter, int) else float(max_iter)
            d.sweeps = counts[0] if counts else 0
            d.ncalls = sum(counts)
            d.xin = xin
            d.xout = np.array(out, dtype=float, copy=True)
            if _modname == 'model':
                H.dyk_model_out.add(d.xout.tobytes())
                H.dyk_last_model = d
            if _modname == 'solver':
                H.dyk_solver_out.append(d)
            H.dyk_stats = getattr(H, 'dyk_stats', None) or {'calls': 0, 'rule': 0, 'cap': 0, 'maxratio': 0.0}
            H.dyk_stats['calls'] += 1
            H.dyk_by_out = getattr(H, 'dyk_by_out', None) or {}
            if _modname in ('model', 'solver'):
                H.dyk_by_out[d.xout.tobytes()] = d
            if check_contract:
                _check_dykstra_contract(H, d, P)
            return out
        instr._patch(mod, 'dykstra', dyk)


def _check_dykstra_contract(H, d, P):
    """C15 in situ: the routine's own contract on every call the solver makes."""
    H.count('c15.calls')
    site = 'dykstra<%s.%s' % (d.mod, d.func)
    p = d.p
    if p == 0:
        return
    if d.ncalls != d.sweeps * p:
        H.flag_insitu('C15', 'uneven_sweeps', site, 'projector call counts are not a whole number of sweeps')
    if d.sweeps > d.max_iter:
        H.flag_insitu('C15', 'too_many_sweeps', site, 'sweeps=%d > max_iter=%d' % (d.sweeps, d.max_iter))
    x = d.xout
    if not np.all(np.isfinite(d.xin)):
        H.count('c15.nonfinite_input')
        return
    # last set: exactly inside when it is a box (model / solver / controller callers append the bound box last; the
    # trust-region callers append the ball last, for which the statement claims nothing beyond the tolerance clause)
    last = P[-1](x.copy())
    scale = max(1.0, float(np.max(np.abs(x))))
    if d.mod != 'trust_region' and not np.all(last == x):
        H.flag_insitu('C15', 'not_in_last_set', site, 'last set is the bound box, distance to it %.3e' % float(np.linalg.norm(last - x)))
    # rounding floor of the routine's own arithmetic: it adds and subtracts correction vectors of the size of the input
    # (x_in = 1e15 leaves an absolute error of ~0.1 in every sub-step: the theorem below holds in exact arithmetic only)
    rnd_floor = 16 * EPS * max(scale, float(np.max(np.abs(d.xin)))) * p
    stopped_by_rule = d.sweeps < d.max_iter
    dists = [float(np.linalg.norm(x - Pi(x.copy()))) for Pi in P]
    if stopped_by_rule:
        H.count('c15.stopped_by_rule')
        bound = float(np.sqrt(p * d.tol))
        worst = max(dists)
        H.dyk_stats['rule'] += 1
        H.dyk_stats['maxratio'] = max(H.dyk_stats['maxratio'], worst / bound if bound > 0 else 0.0)
        if worst > bound * (1 + 1e-9) + rnd_floor:
            H.flag_insitu('C15', 'outside_tolerance', site, 'dist %.3e > sqrt(p*tol)=%.3e (p=%d tol=%g sweeps=%d)' % (worst, bound, p, d.tol, d.sweeps))
    else:
        H.dyk_stats['cap'] += 1
    # a point already in all sets is returned unchanged
    din = [float(np.linalg.norm(d.xin - Pi(d.xin.copy()))) for Pi in P]
    if max(din) == 0.0:
        H.count('c15.input_feasible')
        if not np.all(np.abs(x - d.xin) <= 1e-12 * max(1.0, float(np.max(np.abs(d.xin))))):
            H.flag_insitu('C15', 'feasible_point_moved', site, 'moved by %.3e' % float(np.linalg.norm(x - d.xin)))
    # near-optimality against a reference run, for a deterministic 1-in-20 sample of rule-stopped calls at tight tolerance
    if stopped_by_rule and d.tol <= 1e-10 and (H.insitu_counts.get('c15.calls', 0) % 20 == 0):
        xref = reference_dykstra(P, d.xin)
        if xref is not None:
            H.count('c15.reference_compared')
            err = float(np.linalg.norm(x - xref))
            H.dyk_stats['maxerr'] = max(H.dyk_stats.get('maxerr', 0.0), err)
            if err > 1e-3 + rnd_floor:
                H.flag_insitu('C15', 'not_near_projection', site, 'distance to reference projection %.3e' % err)


def reference_dykstra(P, x0, max_sweeps=20000, tol=1e-30):
    """Harness-side Dykstra to (near) machine precision.  Returns None when it did not converge within the cap."""
    x = np.array(x0, dtype=float, copy=True)
    p = len(P)
    y = np.zeros((p, x.shape[0]))
    for sweep in range(max_sweeps):
        c = 0.0
        for i in range(p):
            prev = x
            x = P[i](prev - y[i])
            newy = x - (prev - y[i])
            c += float(np.dot(y[i] - newy, y[i] - newy))
            y[i] = newy
        if c <= tol:
            return x
    return None


# ---------------------------------------------------------------------------------------------------------------
# C12: trsbox in situ
# ---------------------------------------------------------------------------------------------------------------

def _install_trsbox(instr, H):
    import dfols.controller as dc
    orig = dc.trsbox

    sig = inspect.signature(orig)

    def trsbox(*a, **kw):
        ba = sig.bind(*a, **kw)
        args = [np.array(ba.arguments[nm], dtype=float, copy=True) for nm in ('xopt', 'g', 'H', 'sl', 'su')]
        delta = ba.arguments['delta']
        out = orig(*a, **kw)
        try:
            check_trsbox(H, args[0], args[1], args[2], args[3], args[4], float(delta), out)
        except Exception as e:  # harness fault, never a property verdict
            H.log_anomalies.append(('probe-error', 'c12', repr(e)))
        return out
    instr._patch(dc, 'trsbox', trsbox)


def check_trsbox(H, xopt, g, Hm, sl, su, delta, out):
    d, gnew, crvmin = out
    d = np.array(d, dtype=float)
    gnew = np.array(gnew, dtype=float)
    site = 'trsbox'
    if not (np.all(np.isfinite(g)) and np.all(np.isfinite(Hm))):
        H.count('c12.skipped_nonfinite')
        return
    H.count('c12.calls')
    n = len(xopt)
    # box, in the exact floating-point form the routine guarantees: d = clip(xopt + d) - xopt
    if np.any(d < sl - xopt) or np.any(d > su - xopt) or np.any(np.isnan(d)):
        H.flag_insitu('C12', 'box', site, 'step leaves the box by %.3e' % float(max(np.max((sl - xopt) - d), np.max(d - (su - xopt)))))
    nd = float(np.linalg.norm(d))
    if nd > delta * (1 + 1e-8):
        H.flag_insitu('C12', 'radius', site, '||d||/delta - 1 = %.3e' % (nd / delta - 1))
    Hd = Hm.dot(d)
    q = float(np.dot(g, d) + 0.5 * np.dot(d, Hd))
    # Cauchy point: steepest descent on the variables not fixed at a bound, truncated at first bound or the ball
    free = ~(((xopt <= sl) & (g >= 0.0)) | ((xopt >= su) & (g <= 0.0)))
    s = np.where(free, -g, 0.0)
    qc = 0.0
    ss = float(np.dot(s, s))
    if ss > 0.0:
        tmax = delta / np.sqrt(ss)
        with np.errstate(all='ignore'):
            for i in range(n):
                if s[i] > 0:
                    tmax = min(tmax, (su[i] - xopt[i]) / s[i])
                elif s[i] < 0:
                    tmax = min(tmax, (sl[i] - xopt[i]) / s[i])
        tmax = max(tmax, 0.0)
        sHs = float(np.dot(s, Hm.dot(s)))
        t = tmax
        if sHs > 0.0:
            t = min(tmax, ss / sHs)
        qc = float(-t * ss + 0.5 * t * t * sHs)
    xinf = float(np.max(np.abs(xopt))) if n else 0.0
    absH = np.abs(Hm)
    absd = np.abs(d)
    # tolerance = relative slack + forward rounding error of evaluating q(d) (terms before cancellation) + effect of rounding d to the
    # grid of xopt + the routine's own step-length floor (multipliers <= 1e-30 are refused by design, forgoing <= 1e-30*|s|^2)
    tau = 1e-10 * max(abs(float(np.dot(g, d))), abs(0.5 * float(np.dot(d, Hd))), abs(qc)) \
        + 64 * EPS * (float(np.dot(np.abs(g), absd)) + 0.5 * float(np.dot(absd, absH.dot(absd)))) \
        + 8 * EPS * xinf * (float(np.sum(np.abs(g))) + float(np.sum(np.abs(Hd)))) + 1e-20 * float(np.linalg.norm(g)) * delta + 1e-30 * ss
    if not np.isfinite(q) or not np.isfinite(tau):
        H.count('c12.skipped_overflow')
        return
    if q > tau:
        H.flag_insitu('C12', 'model_increase', site, 'q(d)=%.3e > tol %.3e' % (q, tau))
    if q > qc + tau:
        H.flag_insitu('C12', 'less_than_cauchy', site, 'q(d)=%.6e > q(cauchy)=%.6e + %.1e' % (q, qc, tau))
    gerr = float(np.linalg.norm(gnew - (g + Hd)))
    gtol = 1e-8 * (float(np.linalg.norm(g)) + float(np.linalg.norm(Hd))) + 8 * EPS * float(np.linalg.norm(Hm)) * float(np.linalg.norm(xopt)) \
        + 8 * n * EPS * float(np.linalg.norm(absH.dot(absd)))      # rounding of H.d itself (cancellation among its terms)
    H.c12_max = max(getattr(H, 'c12_max', 0.0), gerr / gtol if gtol > 0 else 0.0)
    if gerr > gtol and np.isfinite(gerr):
        H.flag_insitu('C12', 'gnew', site, '||gnew-(g+Hd)||=%.3e > %.3e' % (gerr, gtol))
    H.c12_ranges = getattr(H, 'c12_ranges', None) or {'delta_min': np.inf, 'delta_max': 0.0, 'g_min': np.inf, 'g_max': 0.0, 'active_max': 0}
    R = H.c12_ranges
    R['delta_min'] = min(R['delta_min'], delta)
    R['delta_max'] = max(R['delta_max'], delta)
    gn = float(np.linalg.norm(g))
    R['g_min'] = min(R['g_min'], gn)
    R['g_max'] = max(R['g_max'], gn)
    R['active_max'] = max(R['active_max'], int(np.sum(~free)))


# ---------------------------------------------------------------------------------------------------------------
# C13: geometry step, convex step solvers, regularised predicted reduction
# ---------------------------------------------------------------------------------------------------------------

def _linear_max_over_box_ball(g, lo, hi, Delta):
    """max g.s over {lo <= s <= hi, ||s|| <= Delta}: s(t) = clip(t*g, lo, hi), bisection on ||s(t)|| = Delta."""
    if not np.any(g != 0.0):
        return 0.0
    big = np.where(g > 0, hi, np.where(g < 0, lo, 0.0))
    if np.linalg.norm(big) <= Delta:
        return float(np.dot(g, big))
    t_lo, t_hi = 0.0, 1.0
    while np.linalg.norm(np.clip(t_hi * g, lo, hi)) < Delta:
        t_hi *= 2.0
        if t_hi > 1e300:
            break
    for _ in range(200):
        t = 0.5 * (t_lo + t_hi)
        if np.linalg.norm(np.clip(t * g, lo, hi)) < Delta:
            t_lo = t
        else:
            t_hi = t
    return float(np.dot(g, np.clip(t_lo * g, lo, hi)))


def _install_c13(instr, H):
    import dfols.controller as dc
    import dfols.model as dm

    for mod, modname in ((dc, 'controller'), (dm, 'model')):
        orig = mod.trsbox_geometry

        sig = inspect.signature(orig)

        def tg(*a, _orig=orig, _modname=modname, _sig=sig, **kw):
            ba = _sig.bind(*a, **kw)
            args = [np.array(ba.arguments[nm], dtype=float, copy=True) for nm in ('xbase', 'g', 'lower', 'upper')]
            c = ba.arguments['c']
            Delta = ba.arguments['Delta']
            out = _orig(*a, **kw)
            try:
                check_trsbox_geometry(H, args[0], float(c), args[1], args[2], args[3], float(Delta), np.array(out, dtype=float), _modname)
            except Exception as e:
                H.log_anomalies.append(('probe-error', 'c13', repr(e)))
            return out
        instr._patch(mod, 'trsbox_geometry', tg)

    for name in ('ctrsbox_pgd', 'ctrsbox_sfista', 'ctrsbox_geometry'):
        orig = getattr(dc, name)
        sig = inspect.signature(orig)

        def cw(*a, _orig=orig, _name=name, _sig=sig, **kw):
            out = _orig(*a, **kw)
            try:
                ba = _sig.bind(*a, **kw)
                ba.apply_defaults()
                Delta = float(ba.arguments.get('delta', ba.arguments.get('Delta')))
                xc = np.array(ba.arguments.get('xopt', ba.arguments.get('xbase')), dtype=float)
                d = out if _name == 'ctrsbox_geometry' else out[0]
                check_norm(H, _name, np.array(d, dtype=float), Delta, xc)
            except Exception as e:
                H.log_anomalies.append(('probe-error', 'c13', repr(e)))
            return out
        instr._patch(dc, name, cw)

    orig_trs = dc.Controller.__dict__['trust_region_step']

    def trs(self_, *a, **kw):
        out = orig_trs(self_, *a, **kw)
        if self_.h is not None:
            try:
                check_pred_reduction(H, self_, out)
            except Exception as e:
                H.log_anomalies.append(('probe-error', 'c13', repr(e)))
        return out
    instr._patch(dc.Controller, 'trust_region_step', trs)


def check_trsbox_geometry(H, xbase, c, g, lower, upper, Delta, x, modname):
    site = 'trsbox_geometry<' + modname
    if not (np.all(np.isfinite(g)) and np.isfinite(c)):
        H.count('c13.geom_skipped_nonfinite')
        return
    H.count('c13.geom_calls')
    s = x - xbase
    scale = max(1.0, float(np.max(np.abs(xbase))), float(np.max(np.abs(x))))
    lo = np.minimum(lower - xbase, 0.0)
    hi = np.maximum(upper - xbase, 0.0)
    if np.any(x < lower - 1e-12 * scale) or np.any(x > upper + 1e-12 * scale):
        # the routine widens active sides to +-1e-14 by design; 1e-12 relative is the statement's tolerance
        H.flag_insitu('C13', 'geom_box', site, 'outside box by %.3e' % float(max(np.max(lower - x), np.max(x - upper))))
    ns = float(np.linalg.norm(s))
    if ns > Delta * (1 + 1e-8) + 4 * EPS * scale:
        H.flag_insitu('C13', 'geom_radius', site, '||s||/Delta - 1 = %.3e' % (ns / Delta - 1))
    val = abs(c + float(np.dot(g, s)))
    mp = _linear_max_over_box_ball(g, lo, hi, Delta)
    mm = _linear_max_over_box_ball(-g, lo, hi, Delta)
    best = max(abs(c + mp), abs(c - mm))
    slack = 1e-6 * best + 64 * EPS * (abs(c) + float(np.sum(np.abs(g))) * scale) + 1e-13 * float(np.sum(np.abs(g)))
    H.c13_geom_ratio = min(getattr(H, 'c13_geom_ratio', np.inf), (val / best) if best > 0 else 1.0)
    if val < best - slack:
        # is the shortfall explained by the routine's design constant?  Components with |g_i| < 1e-14 (ZERO_THRESH) are never
        # stepped along; with Delta = 1e10 and |g| ~ 1e-13 ignoring one such component costs > 1e-6 relative.
        g2 = np.where(np.abs(g) < 1e-14, 0.0, g)
        best2 = max(abs(c + _linear_max_over_box_ball(g2, lo, hi, Delta)), abs(c - _linear_max_over_box_ball(-g2, lo, hi, Delta)))
        if np.any(g2 != g) and val >= best2 - slack:
            H.flag_insitu('C13', 'geom_not_max:zero_thresh', site, '|L(s)|=%.6e < max %.6e; equals the maximum %.6e over the components with |g_i| >= 1e-14 (Delta=%.3g, |g|=%.3g)' % (
                val, best, best2, Delta, float(np.linalg.norm(g))))
        else:
            H.flag_insitu('C13', 'geom_not_max', site, '|L(s)|=%.6e < max %.6e' % (val, best))
    if val < abs(c) - slack:
        H.flag_insitu('C13', 'geom_worse_than_zero', site, '|L(s)|=%.6e < |c|=%.6e' % (val, abs(c)))


def check_norm(H, name, d, Delta, xc):
    H.count('c13.%s_calls' % name)
    if not np.all(np.isfinite(d)):
        H.count('c13.%s_nonfinite' % name)
        return
    nd = float(np.linalg.norm(d))
    excess = nd / Delta - 1.0
    H.c13_norm_excess = max(getattr(H, 'c13_norm_excess', -1.0), excess)
    if nd > Delta * (1 + 1e-8):
        xinf = float(np.max(np.abs(xc))) if len(xc) else 0.0
        rounding_class = excess <= 1e-8 + 16 * EPS * xinf / Delta
        H.flag_insitu('C13', 'norm_rounding_class' if rounding_class else 'norm', name,
                      '||d||/Delta - 1 = %.3e (Delta=%.3e, |x|=%.3e)' % (excess, Delta, xinf))


def check_pred_reduction(H, ctrl, out):
    from dfols.util import remove_scaling
    d, gopt, Hm, gnew, crvmin = out
    H.count('c13.regstep_calls')
    if not (np.all(np.isfinite(gopt)) and np.all(np.isfinite(Hm)) and np.all(np.isfinite(d))):
        return
    H.in_probe = True
    try:
        xopt = ctrl.model.xopt(abs_coordinates=True)
    finally:
        H.in_probe = False
    hv = H.env.reg['hval']
    h0 = hv(np.asarray(remove_scaling(xopt, ctrl.scaling_changes), dtype=float))
    h1 = hv(np.asarray(remove_scaling(xopt + d, ctrl.scaling_changes), dtype=float))
    mv = float(np.dot(d, gopt + 0.5 * Hm.dot(d))) + h1
    pred = h0 - mv
    tol = 1e-12 * max(abs(h0), abs(h1), abs(float(np.dot(d, gopt))), 1e-300)
    if pred < -tol:
        H.flag_insitu('C13', 'negative_predicted_reduction', 'trust_region_step', 'pred=%.3e' % pred)


# ---------------------------------------------------------------------------------------------------------------
# C14: random direction generators in situ
# ---------------------------------------------------------------------------------------------------------------

def _install_dirs(instr, H):
    import dfols.controller as dc
    import sys
    for name in ('random_directions_within_bounds', 'random_orthog_directions_within_bounds'):
        orig = getattr(dc, name)

        sig = inspect.signature(orig)

        def gen(*a, _orig=orig, _name=name, _sig=sig, **kw):
            ba = _sig.bind(*a, **kw)
            num_pts, delta = ba.arguments['num_pts'], ba.arguments['delta']
            lo = np.array(ba.arguments['lower'], dtype=float, copy=True)
            hi = np.array(ba.arguments['upper'], dtype=float, copy=True)
            out = _orig(*a, **kw)
            try:
                caller = sys._getframe(1).f_code.co_name
                check_dirs(H, _name, caller, int(num_pts), float(delta), lo, hi, np.array(out, dtype=float))
            except Exception as e:
                H.log_anomalies.append(('probe-error', 'c14', repr(e)))
            return out
        instr._patch(dc, name, gen)


def check_dirs(H, name, caller, num_pts, delta, lo, hi, D):
    H.count('c14.%s' % name)
    site = '%s<%s' % (name, caller)
    n = len(lo)
    if D.shape != (num_pts, n):
        H.flag_insitu('C14', 'dirs_shape', site, 'shape %s, wanted (%d,%d)' % (D.shape, num_pts, n))
        return
    if np.any(np.isnan(D)):
        H.flag_insitu('C14', 'dirs_nan', site, 'NaN direction')
        return
    if np.any(D < lo) or np.any(D > hi):
        H.flag_insitu('C14', 'dirs_box', site, 'direction outside bounds by %.3e' % float(max(np.max(lo - D), np.max(D - hi))))
    norms = np.linalg.norm(D, axis=1)
    worst = float(np.max(norms)) / delta
    H.c14_dir_ratio = max(getattr(H, 'c14_dir_ratio', 0.0), worst)
    if worst > 1 + 1e-12:
        active = bool(np.any(lo == 0) or np.any(hi == 0))
        two_delta = abs(worst - 2.0) <= 1e-12 and name == 'random_orthog_directions_within_bounds' and active and num_pts > n
        H.flag_insitu('C14', 'dirs_too_long_active_extra' if two_delta else 'dirs_too_long', site,
                      'max ||d||/delta = %.6g (num_pts=%d, n=%d)' % (worst, num_pts, n))


# ---------------------------------------------------------------------------------------------------------------
# C16 in situ: identities after every fit the solver performs (histories = the solver's own: base shifts, geometry
# steps, restarts, regression)
# ---------------------------------------------------------------------------------------------------------------

class _LiveState(object):
    def __init__(self, model):
        self.model = model
        self.nops = 0
        self.lam = None


def _install_c16(instr, H):
    import dfols.model as dm
    from . import model_machine as MM
    cur = dm.Model.__dict__['interpolate_mini_models_svd']

    def interp(self_, *a, **kw):
        out = cur(self_, *a, **kw)
        try:
            if out[0] and not kw.get('make_full_rank', a[1] if len(a) > 1 else False):
                st = _LiveState(self_)
                if MM._all_finite(st):
                    H.count('c16.fits_checked')
                    for v in MM.check_fit(st, 'solve:interpolate') + MM.check_lagrange(st, 'solve:interpolate'):
                        H.flag_insitu(v['prop'], v['clause'], v['site'], v['detail'])
        except Exception as e:
            H.log_anomalies.append(('probe-error', 'c16', repr(e)))
        return out
    instr._patch(dm.Model, 'interpolate_mini_models_svd', interp)
