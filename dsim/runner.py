"""Batch runner: fans units out over a fork pool, reduces results in index order, handles violations
(known-finding matching, minimisation, fresh-interpreter replay) and writes the evidence file."""
import concurrent.futures as cf
import faulthandler
import hashlib
import json
import multiprocessing as mp
import os
import subprocess
import sys
import time
import traceback

from . import known as K
from . import legs as L
from . import minimise as M
from . import oracles as O
from . import scenario as S
from . import sim

ROOT = os.path.dirname(os.path.dirname(os.path.abspath(__file__)))
EVID = os.path.join(ROOT, 'evidence')
REPLAYS = os.path.join(ROOT, 'replays')

_SPECS = None
_QUIET_DONE = False


def leg_seed(seed, check_id, leg_name):
    h = hashlib.sha256(('%d/%s/%s' % (int(seed), check_id, leg_name)).encode()).digest()
    return int.from_bytes(h[:4], 'big') & 0x7fffffff


_LINE_HITS = set()
_LINE_REPORTED = set()
_LINE_MON = [False]


def _start_line_probe():
    """Line-level reach probe (sys.monitoring, Python >= 3.12): every dfols source line reports once and is then disabled,
    so the cost after warm-up is nil.  Pure observation: nothing in the run depends on it."""
    if _LINE_MON[0] or not hasattr(sys, 'monitoring') or os.environ.get('DSIM_NO_LINE_PROBE') == '1':
        return
    _LINE_MON[0] = True
    try:
        mon = sys.monitoring
        tool = mon.PROFILER_ID
        mon.use_tool_id(tool, 'dsim-reach')

        def on_line(code, line):
            fn = code.co_filename
            if '/dfols/' in fn and '/tests/' not in fn:
                _LINE_HITS.add((fn.rsplit('/', 1)[1], line))
            return mon.DISABLE
        mon.register_callback(tool, mon.events.LINE, on_line)
        mon.set_events(tool, mon.events.LINE)
    except Exception:
        pass


def executable_lines():
    """(file, line) of every line that carries code in the dfols modules of the tree under test."""
    import dis
    from . import boot
    out = set()
    base = os.path.join(boot.dfols_src(), 'dfols')
    for fn in sorted(os.listdir(base)):
        if not fn.endswith('.py'):
            continue
        try:
            code = compile(open(os.path.join(base, fn)).read(), fn, 'exec')
        except Exception:
            continue
        stack = [code]
        while stack:
            c = stack.pop()
            for _, ln in dis.findlinestarts(c):
                if ln is not None:
                    out.add((fn, ln))
            stack.extend(k for k in c.co_consts if hasattr(k, 'co_code'))
    return out


def _work(arg):
    check_id, leg_idx, base_seed, index, tier = arg
    global _QUIET_DONE
    _start_line_probe()
    if not _QUIET_DONE and os.environ.get('DSIM_DEBUG') != '1':
        # LAPACK prints "On entry to DLASCL ..." on NaN input straight to fd 2; keep worker stderr out of the check output
        try:
            fd = os.open(os.devnull, os.O_WRONLY)
            os.dup2(fd, 2)
        except Exception:
            pass
        _QUIET_DONE = True
    faulthandler.dump_traceback_later(2400 if tier == 'quick' else 7200, exit=True)      # last-resort guard for a stuck worker (a unit takes seconds to minutes)
    try:
        from . import checks
        spec = checks.legs_for(check_id, tier)[leg_idx]
        opts = dict(spec['opts'])
        opts['tier'] = tier
        fn = spec['leg'] if callable(spec['leg']) else L.LEGS[spec['leg']]
        res = fn(base_seed, index, opts)
        seen = {}
        for v in res['violations']:
            sg = signature(v)
            if sg in seen:
                seen[sg]['count'] += 1
            elif len(seen) < 12:
                v['count'] = 1
                seen[sg] = v
        res['violations'] = list(seen.values())
        res['unit'] = (leg_idx, index)
        new_lines = _LINE_HITS - _LINE_REPORTED
        _LINE_REPORTED.update(new_lines)
        res['new_lines'] = sorted(new_lines)
        return res
    except BaseException as e:  # harness error: reported apart from any property verdict
        return dict(harness_error=''.join(traceback.format_exception(type(e), e, e.__traceback__))[-1500:], unit=(leg_idx, index))
    finally:
        faulthandler.cancel_dump_traceback_later()


def merge(total, res):
    for k, v in res.items():
        if k in ('violations', 'samples', 'digests', 'path_sigs', 'unit', 'probe_errors', 'timeout_scenarios', 'new_lines'):
            continue
        if isinstance(v, dict):
            d = total.setdefault(k, {})
            for kk, vv in v.items():
                if isinstance(vv, (int, float)) and not isinstance(vv, bool):
                    if kk.endswith(('max', 'max_err_over_tol', 'ratio', 'excess')) or 'max' in kk:
                        d[kk] = max(d.get(kk, vv), vv)
                    elif 'min' in kk:
                        d[kk] = min(d.get(kk, vv), vv)
                    else:
                        d[kk] = d.get(kk, 0) + vv
                else:
                    d[kk] = vv
        elif isinstance(v, (int, float)):
            total[k] = total.get(k, 0) + v


def signature(v):
    return (v['prop'], v['clause'], v['site'])


# ---------------------------------------------------------------------------------------------------------------
# reproduction of a recorded violation (used by the minimiser, by `check replay`, and by known findings)
# ---------------------------------------------------------------------------------------------------------------

def reproduce(rec):
    """Returns (violations, digest) for a replay record {kind, scenario, probes, oracles, ...}."""
    kind = rec.get('kind', 'solve')
    if kind == 'solve':
        H = sim.run_scenario(rec['scenario'], probes=tuple(rec.get('probes', ())))
        res = L.new_result()
        L.judge(res, H, rec['oracles'], rec['scenario'])
        return res['violations'], H.digest()
    from . import checks
    fn = checks.REPRODUCERS[kind]
    return fn(rec)


def same_failure(vs, expect):
    for v in vs:
        if v['prop'] == expect['prop'] and v['clause'] == expect['clause'] and v['site'] == expect['site']:
            return v
    return None


def write_replay(check_id, rec, tag):
    os.makedirs(REPLAYS, exist_ok=True)
    path = os.path.join(REPLAYS, '%s-%s.json' % (check_id, tag))
    with open(path, 'w') as f:
        json.dump(rec, f, indent=1, sort_keys=True)
    return path


def fresh_replay(path, hashseed='12345'):
    """Replays the file in a fresh interpreter under another hash seed; returns (reproduced, digest, output)."""
    env = dict(os.environ)
    env['DSIM_HASHSEED'] = hashseed
    env['PYTHONHASHSEED'] = hashseed
    try:
        p = subprocess.run([sys.executable, os.path.join(ROOT, 'dsim_main.py'), 'replay', path], env=env, capture_output=True, text=True, timeout=600)
    except subprocess.TimeoutExpired:
        return None, None, 'timeout'
    out = p.stdout
    dig = None
    for line in out.splitlines():
        if line.startswith('DIGEST '):
            dig = line.split()[1]
    return ('REPRODUCED' in out), dig, out[-800:] + p.stderr[-400:]


# ---------------------------------------------------------------------------------------------------------------
# the check driver
# ---------------------------------------------------------------------------------------------------------------

def run_check(check_id, tier, seed, workers=None, max_report=None, quiet=False):
    max_report = max_report or int(os.environ.get("DSIM_MAX_REPORT", "4"))
    from . import checks
    t0 = time.time()
    spec = checks.CHECKS[check_id]
    legs = checks.legs_for(check_id, tier)
    workers = workers or int(os.environ.get('DSIM_WORKERS', '0')) or min(16, os.cpu_count() or 1)
    out_lines = []

    def say(s):
        out_lines.append(s)
        if not quiet:
            print(s, flush=True)

    say('== %s tier=%s seed=%d workers=%d src=%s' % (check_id, tier, seed, workers, os.environ.get('DFOLS_SRC', '/repo')))
    exit_code = 0
    total = {}
    samples = []
    all_viol = []
    harness_errors = []
    digests = hashlib.sha256()
    sigs = set()
    nontriv_sigs = set()
    per_leg = []

    # ---- known findings and regression replays first
    entries = K.for_property(check_id)
    known_lines = []
    for e in entries:
        if not e.replay:
            continue
        rp = os.path.join(ROOT, e.replay)
        if not os.path.exists(rp):
            harness_errors.append('known-findings replay missing: %s' % e.replay)
            continue
        rec = json.load(open(rp))
        try:
            vs, dig = reproduce(rec)
        except BaseException as ex:
            harness_errors.append('known-findings replay %s crashed: %r' % (e.replay, ex))
            continue
        hit = same_failure(vs, rec['expect'])
        if e.status == 'open':
            if hit:
                say('KNOWN-FINDING: property=%s id=%s %s [%s @ %s] replay=%s' % (check_id, e.id, e.text, rec['expect']['clause'], rec['expect']['site'], e.replay))
                known_lines.append(e.id)
            else:
                say('note: known finding %s no longer reproduces from %s (entry is stale, nothing suppressed by it is affected)' % (e.id, e.replay))
        else:  # fixed: regression scenario, must pass
            bad = [v for v in vs if v['prop'] == check_id]
            if bad:
                v = bad[0]
                say('VIOLATION property=%s replay=%s' % (check_id, rp))
                say('  regression of a fixed defect: %s/%s: %s' % (v['clause'], v['site'], v['detail']))
                exit_code = 1

    # ---- fan out
    tasks = []
    for li, leg in enumerate(legs):
        bs = leg_seed(seed, check_id, leg['name'])
        for idx in range(leg['units']):
            tasks.append((check_id, li, bs, idx, tier))
    results = {}
    ctx = mp.get_context('fork')
    wall_limit = spec.get('wall_limit', {}).get(tier, 3000 if tier == 'quick' else 14000)
    with cf.ProcessPoolExecutor(max_workers=workers, mp_context=ctx) as ex:
        futs = {ex.submit(_work, t): t for t in tasks}
        try:
            for fut in cf.as_completed(futs, timeout=wall_limit):
                t = futs[fut]
                try:
                    results[(t[1], t[3])] = fut.result()
                except BaseException as e:
                    results[(t[1], t[3])] = dict(harness_error='worker died: %r' % (e,), unit=(t[1], t[3]))
        except cf.TimeoutError:
            harness_errors.append('batch wall limit %ds exceeded with %d of %d units done' % (wall_limit, len(results), len(tasks)))
            for f in futs:
                f.cancel()
            for pr in list(getattr(ex, '_processes', {}).values()):
                try:
                    pr.terminate()
                except Exception:
                    pass
    lines_hit = set()
    # ---- reduce in index order
    for li, leg in enumerate(legs):
        lt = {}
        for idx in range(leg['units']):
            r = results.get((li, idx))
            if r is None:
                continue
            if 'harness_error' in r:
                harness_errors.append('unit %s/%d: %s' % (leg['name'], idx, r['harness_error']))
                continue
            merge(total, r)
            merge(lt, r)
            lines_hit.update(tuple(x) for x in r.get('new_lines', []))
            for d in r['digests']:
                digests.update(d.encode())
            sigs.update(r['path_sigs'])
            for s_ in r['samples']:
                if len(samples) < 6 and (len([x for x in samples if x.get('leg_name') == leg['name']]) < 2):
                    samples.append(dict(s_, leg_name=leg['name']))
            for v in r['violations']:
                v['leg'] = li
                v['unit_index'] = idx
                all_viol.append(v)
            for pe in r.get('probe_errors', []):
                harness_errors.append('probe error: ' + pe)
            for ts in r.get('timeout_scenarios', []):
                path = write_replay(check_id, dict(kind='solve', property=check_id, scenario=ts, probes=list(leg['opts'].get('probes', ())),
                                                   oracles=list(leg['opts'].get('oracles', [check_id])), expect=dict(prop=check_id, clause='harness-timeout', site='wall_clock'),
                                                   detail='run exceeded the wall-clock guard'), 'timeout-' + S.scenario_hash(ts))
                harness_errors.append('HARNESS-TIMEOUT: a run exceeded the wall-clock guard (no verdict); scenario saved as %s' % path)
        per_leg.append(dict(name=leg['name'], units=leg['units'], runs=lt.get('runs', 0), evals=lt.get('evals', 0), wall_cpu_s=round(lt.get('wall', 0.0), 1),
                            cut_points=lt.get('cut_points', 0), fault_points=lt.get('fault_points', 0)))

    # ---- violations
    groups = {}
    for v in all_viol:
        if v['prop'] != check_id and not spec.get('report_all'):
            total['other'] = total.get('other', 0) + 1
            continue
        groups.setdefault(signature(v), []).append(v)
    open_entries = [e for e in entries if e.status == 'open']
    known_matched = {}
    new_groups = []
    for sig, vs in sorted(groups.items(), key=lambda kv: (-len(kv[1]), kv[0])):
        rest = []
        for v in vs:
            e = next((e for e in open_entries if e.matches(v)), None)
            if e is not None:
                known_matched[e.id] = known_matched.get(e.id, 0) + v.get('count', 1)
            else:
                rest.append(v)
        if rest:
            new_groups.append((sig, rest))
    reported = []
    if spec.get('report_all') or os.environ.get('DSIM_REPORT_ALL') == '1':
        for sig, vs in new_groups:
            say('%6d  %s / %s / %s :: %s  feats=%s' % (sum(v.get('count', 1) for v in vs), sig[0], sig[1], sig[2], vs[0]['detail'][:150], ','.join(vs[0].get('features', []))[:120]))
        if spec.get('report_all'):
            new_groups = []
    for sig, vs in new_groups[:max_report]:
        v = vs[0]
        rec = dict(kind=v.get('kind', 'solve'), property=check_id, scenario=v['scenario'], probes=list(legs[v['leg']]['opts'].get('probes', ())),
                   oracles=list(legs[v['leg']]['opts'].get('oracles', [check_id])), expect=dict(prop=v['prop'], clause=v['clause'], site=v['site']),
                   detail=v['detail'], features=v.get('features'), count_in_batch=sum(x.get('count', 1) for x in vs), found_by=dict(leg=legs[v['leg']]['name'], seed=seed, tier=tier))
        for key in ('session', 'ops', 'entry'):
            if key in v:
                rec[key] = v[key]
        # minimise (solve-kind only; other kinds carry their own shrinking)
        if rec['kind'] == 'solve' and not spec.get('no_minimise'):
            base = dict(rec)

            def fails(s, base=base):
                r2 = dict(base)
                r2['scenario'] = s
                vs2, _ = reproduce(r2)
                return same_failure(vs2, base['expect']) is not None
            try:
                small, info = M.minimise(v['scenario'], fails, max_runs=250, max_seconds=45.0)
                rec['unminimised_scenario_hash'] = S.scenario_hash(v['scenario'])
                rec['scenario'] = small
                rec['minimisation'] = info
                rec['features'] = S.features(small)
            except BaseException as e:
                rec['minimisation'] = dict(error=repr(e))
        if rec['kind'] != 'solve' and not spec.get('no_minimise'):
            from . import checks as _ch
            if rec['kind'] in _ch.MINIMISERS:
                try:
                    rec = _ch.MINIMISERS[rec['kind']](rec, same_failure)
                except BaseException as e:
                    rec['minimisation'] = dict(error=repr(e))
        try:
            vs2, dig = reproduce(rec)
            hit = same_failure(vs2, rec['expect'])
        except BaseException as e:
            hit, dig = None, None
            harness_errors.append('reproduce crashed for %s: %r' % (sig, e))
        if hit is None:
            harness_errors.append('REPLAY-UNSTABLE: %s did not reproduce in process' % (sig,))
            continue
        rec['detail'] = hit['detail']
        rec['digest'] = dig
        tag = hashlib.sha256(json.dumps([sig, S.dumps(rec['scenario']) if rec['kind'] == 'solve' else rec.get('detail')], sort_keys=True).encode()).hexdigest()[:10]
        path = write_replay(check_id, rec, tag)
        ok, dig2, txt = fresh_replay(path)
        if not ok or (dig is not None and dig2 is not None and dig2 != dig):
            harness_errors.append('REPLAY-UNSTABLE: %s (fresh interpreter: reproduced=%s digest %s vs %s) %s' % (sig, ok, dig2, dig, txt[-300:]))
            continue
        say('VIOLATION property=%s replay=%s' % (check_id, path))
        say('  %s / %s / %s  (x%d in this batch): %s' % (sig[0], sig[1], sig[2], rec['count_in_batch'], rec['detail']))
        reported.append(dict(signature=list(sig), replay=path, count=rec['count_in_batch'], detail=rec['detail']))
        exit_code = 1
    if len(new_groups) > max_report:
        say('  (+%d further distinct violation signatures not minimised: %s)' % (len(new_groups) - max_report, [list(g[0]) for g in new_groups[max_report:max_report + 6]]))

    # ---- determinism spot check in a fresh interpreter
    nondet = None
    if spec.get('spot_check', True) and legs and not harness_errors:
        nondet = spot_check(check_id, tier, seed, legs, results)
        if nondet:
            harness_errors.append('NONDETERMINISM: ' + nondet)

    wall = time.time() - t0
    runs = int(total.get('runs', 0))
    ev = dict(
        property_id=check_id, tier=tier, seed=int(seed), level=spec['level'],
        coverage=dict(
            evaluations=max(runs, 0),
            distinct_nontrivial=len(sigs) if runs else 0,
            rule=spec['rule'],
            samples=samples[:6] if samples else [],
            runs_per_hour=int(runs / wall * 3600) if wall > 0 else 0,
            seeds=dict(verif_seed=int(seed), units=len(tasks), scenarios_derived_as='sha256(leg_seed, index)'),
            logical_time=dict(objfun_calls=int(total.get('evals', 0)), main_loop_iterations=int(total.get('iters', 0)),
                              seam_events=int(total.get('seam_events', 0)), note='dfols has no clock; logical time = events at the seams'),
            nontrivial_runs=int(total.get('nontrivial', 0)),
            distinct_histories_measure='distinct path signatures = sha256(sequence of evaluation-requesting routines + fault marks + restart kinds + exit route)',
            faults_fired=total.get('faults_fired', {}),
            cut_points_visited=int(total.get('cut_points', 0)),
            fault_points_visited=int(total.get('fault_points', 0)),
            exits_reached=dict(sorted(total.get('exits', {}).items(), key=lambda kv: -kv[1])[:40]),
            evaluation_sites=total.get('sites', {}),
            restarts=total.get('restarts', {}),
            base_shifts=int(total.get('base_shifts', 0)),
            features=total.get('features', {}),
            insitu_assertions=total.get('insitu', {}),
            stats=total.get('stats', {}),
            log_events=total.get('log_counts', {}),
            legs=per_leg,
            raised_runs_skipped=int(total.get('raised_skipped', 0)),
            known_findings_matched=known_matched,
            known_findings_reproduced=known_lines,
            violations_reported=reported,
            harness_errors=harness_errors[:10],
            batch_digest=digests.hexdigest(),
            components=dict(real=['dfols.solver', 'dfols.controller', 'dfols.model', 'dfols.trust_region', 'dfols.util', 'dfols.params',
                                  'dfols.diagnostic_info', 'numpy', 'scipy', 'pandas'],
                            stubbed_by_simulator=['objfun', 'nsamples', 'projections', 'h', 'prox_uh', 'numpy global RNG state', 'logging handler',
                                                  'warnings filter', 'stdout']),
        ),
        assumptions=spec.get('assumptions', []),
        wall_s=round(wall, 2),
        violations=len(reported),
    )
    # reach probes: documented exit routes hit by this run (a probe stuck at zero says the workload must change)
    routes = ['0:Success: Objective is sufficiently small', '0:Success: rho has reached rhoend', '0:Success: All points within noise level',
              '0:Success: Reached maximum number of unsuccessful restarts', '1:Warning (max evals)', '2:Warning (slow progress)',
              '3:Warning (max false good steps)', '4:Warning (auto-detected restart)', '5:Warning (trust region increase)',
              '-1:Error (bad input)', '-2:Error (trust region increase)', '-3:Error (linear algebra)', '-4:Error (function evaluation)', 'EXC:', 'STEPCAP']
    reach = {}
    for r_ in routes:
        reach[r_] = sum(v for k, v in total.get('exits', {}).items() if k.startswith(r_))
    ev['coverage']['exit_routes_reached'] = reach
    ev['coverage']['exit_routes_not_reached'] = [k for k, v in reach.items() if v == 0]
    try:
        allines = executable_lines()
        per_file = {}
        for fn, ln in allines:
            per_file.setdefault(fn, [0, 0])[1] += 1
        for fn, ln in lines_hit:
            if (fn, ln) in allines:
                per_file.setdefault(fn, [0, 0])[0] += 1
        ev['coverage']['dfols_lines_reached'] = dict(measure='distinct source lines of /repo/dfols/*.py (tests excluded) executed at least once by the simulated runs of this check (sys.monitoring LINE events)',
                                                      reached=sum(v[0] for v in per_file.values()), executable=sum(v[1] for v in per_file.values()),
                                                      per_file=dict((k, '%d/%d' % (v[0], v[1])) for k, v in sorted(per_file.items())),
                                                      unreached_line_ranges=_ranges(allines - lines_hit))
    except Exception as e:
        ev['coverage']['dfols_lines_reached'] = dict(error=repr(e))
    if spec.get('evidence_extra'):
        spec['evidence_extra'](ev, total)
    if not ev['coverage']['samples']:
        ev['coverage']['samples'] = [dict(note='no sample recorded')]
    os.makedirs(EVID, exist_ok=True)
    if os.environ.get('DSIM_NO_EVIDENCE') != '1':
        with open(os.path.join(EVID, '%s.json' % check_id), 'w') as f:
            json.dump(ev, f, indent=1, sort_keys=True, default=_jsonable)
    say('-- %s: %d runs, %d objfun calls, %d distinct histories, %d violations reported, %d known-finding matches, %.1fs'
        % (check_id, runs, int(total.get('evals', 0)), len(sigs), len(reported), sum(known_matched.values()), wall))
    if harness_errors:
        for h in harness_errors[:8]:
            say('HARNESS-ERROR: ' + h[:600])
        if exit_code == 0:
            exit_code = 2
    return exit_code, ev


def _ranges(pairs):
    """{file: '12-15,20,31-40'} for a set of (file, line)."""
    by = {}
    for fn, ln in pairs:
        by.setdefault(fn, []).append(ln)
    out = {}
    for fn, lns in sorted(by.items()):
        lns = sorted(set(lns))
        parts = []
        start = prev = lns[0]
        for ln in lns[1:] + [None]:
            if ln is not None and ln <= prev + 2:      # tolerate blank / comment lines between
                prev = ln
                continue
            parts.append('%d-%d' % (start, prev) if prev > start else '%d' % start)
            if ln is not None:
                start = prev = ln
        out[fn] = ','.join(parts)
    return out


def _jsonable(o):
    try:
        import numpy as np
        if isinstance(o, (np.integer,)):
            return int(o)
        if isinstance(o, (np.floating,)):
            return float(o)
        if isinstance(o, np.ndarray):
            return o.tolist()
    except Exception:
        pass
    return repr(o)


def spot_check(check_id, tier, seed, legs, results):
    """Re-execute a few units in a fresh interpreter under another PYTHONHASHSEED and compare digest lists."""
    picks = []
    for li, leg in enumerate(legs):
        if leg.get('spot') is False:
            continue      # units of this leg cost minutes each (convex fault-point enumeration); covered by selftest-determinism instead
        if leg['units'] > 0 and (li, 0) in results and 'digests' in results[(li, 0)]:
            picks.append((li, 0))
        if leg['units'] > 3 and (li, 3) in results and 'digests' in results[(li, 3)]:
            picks.append((li, 3))
    picks = picks[:4]
    if not picks:
        return None
    env = dict(os.environ)
    # Hypothesis' generation order depends on the interpreter hash seed, so the model engine is replayable per seed only under
    # the pinned PYTHONHASHSEED=0 (its replay files, plain op lists, do not depend on it); everything else is compared under 12345
    hs = '0' if any(legs[li].get('hashseed_pinned') for li, _ in picks) else '12345'
    env['DSIM_HASHSEED'] = hs
    env['PYTHONHASHSEED'] = hs
    arg = json.dumps(dict(check=check_id, tier=tier, seed=seed, picks=picks))
    try:
        p = subprocess.run([sys.executable, os.path.join(ROOT, 'dsim_main.py'), 'unit-digests', arg], env=env, capture_output=True, text=True, timeout=900)
    except subprocess.TimeoutExpired:
        return 'fresh-interpreter spot check timed out'
    try:
        got = json.loads(p.stdout.strip().splitlines()[-1])
    except Exception:
        return 'fresh-interpreter spot check produced no digests: %s' % (p.stdout[-300:] + p.stderr[-300:])
    for (li, idx), dg in zip(picks, got):
        if results[(li, idx)]['digests'] != dg:
            return 'unit %s/%d: digests differ between this process and a fresh interpreter' % (legs[li]['name'], idx)
    return None


def unit_digests(arg):
    from . import checks
    a = json.loads(arg)
    legs = checks.legs_for(a['check'], a['tier'])
    out = []
    for li, idx in a['picks']:
        bs = leg_seed(a['seed'], a['check'], legs[li]['name'])
        r = _work((a['check'], li, bs, idx, a['tier']))
        out.append(r.get('digests'))
    print(json.dumps(out))
