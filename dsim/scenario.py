"""Scenario = the complete, JSON-serialisable input of one simulated run (the replay file).  `draw` is the seeded
swarm generator: per run it decides which features exist at all, so that no feature is always on or always off.

Floats are stored through Python's repr (json module), which round-trips IEEE doubles exactly."""
import copy
import hashlib
import json
import math
import random

import numpy as np

SCHEMA = 1


def rng_for(base_seed, index, salt=''):
    h = hashlib.sha256(('%d/%d/%s' % (int(base_seed), int(index), salt)).encode()).digest()
    return random.Random(int.from_bytes(h[:8], 'big'))


DEFAULT_PROFILE = dict(
    n_choices=[1, 2, 2, 2, 3, 3, 3, 4, 4, 5, 6, 7, 8],
    m_extra_choices=[-2, -1, 0, 0, 1, 2, 3],       # m = min(10, max(1, n + extra))
    families=['lin', 'lin', 'sinlin', 'cubic', 'trig', 'rosen', 'expfit'],
    p_nanregion=0.08,
    x_scales=[0.01, 1.0, 1.0, 1.0, 10.0, 1e3],
    p_bounds=0.55, p_scaling=0.3, p_onesided=0.2, p_big_entries=0.15,
    p_sets=0.0, p_sets_with_bounds=0.4, p_infeasible_x0=0.35,
    p_reg=0.0,
    p_noise=0.3, p_has_noise_flag=0.3, p_nsamples=0.25, p_bad_nsamples=0.3,
    p_restarts=0.45, p_hard=0.5,
    p_growing=0.0, p_diag=0.2, p_regression=0.3, p_random_init=0.08,
    p_logging=0.85, p_print_progress=0.04,
    p_buggify=0.5,
    p_env_draws=0.3,
    p_explicit_rhobeg=0.7,
    maxfun_choices=[1, 2, 3, 'npt-1', 'npt', 'npt+1', 'npt+3', 15, 25, 40, 60, 100, 150, 250, None],
    deterministic=False,        # True: no noise, nsamples == 1, no env draws needed for values
    p_faults=0.0,               # random multi-fault schedules
    fault_kinds=['nan', '+inf', '-inf', '1e200', 'raise'],
    allow_raise=True,
    p_int_dtype=0.05,
    p_increase_npt=0.3, p_momentum=0.3, p_far_from_origin=0.04,
)


def profile(**over):
    p = dict(DEFAULT_PROFILE)
    p.update(over)
    return p


def _unit(g, n):
    v = g.standard_normal(n)
    nv = float(np.linalg.norm(v))
    if nv == 0.0:
        v = np.ones(n)
        nv = math.sqrt(n)
    return v / nv


def _matrix(g, m, n, cond):
    A = g.standard_normal((m, n))
    if min(m, n) > 1:
        u, s, vt = np.linalg.svd(A, full_matrices=False)
        s = np.logspace(0.0, -math.log10(cond), len(s))
        A = (u * s).dot(vt)
    return A


def _nudge(v, k):
    for _ in range(abs(k)):
        v = float(np.nextafter(v, math.inf if k > 0 else -math.inf))
    return v


def draw(base_seed, index, prof=None, salt=''):
    P = prof or DEFAULT_PROFILE
    rnd = rng_for(base_seed, index, salt)
    g = np.random.Generator(np.random.PCG64(rnd.getrandbits(63)))
    feats = []

    has_sets = rnd.random() < P['p_sets']
    has_reg = rnd.random() < P['p_reg']
    n = rnd.choice(P['n_choices'])
    if has_sets or has_reg:
        n = min(n, 4)
    m = min(10, max(1, n + rnd.choice(P['m_extra_choices'])))
    fam = rnd.choice(P['families'])
    if fam == 'expfit' and n < 2:
        fam = 'lin'
    cond = rnd.choice([2.0, 10.0, 100.0, 1000.0])
    A = _matrix(g, m, n, cond)
    xs = rnd.choice(P['x_scales'])
    if has_sets or has_reg:
        xs = rnd.choice([1.0, 1.0, 10.0])
    x0 = g.standard_normal(n) * xs
    if rnd.random() < 0.1:
        x0[rnd.randrange(n)] = 0.0
    x0_dtype = 'float'
    if rnd.random() < P['p_int_dtype']:
        x0 = np.round(x0)
        x0_dtype = 'int'
    # data scale over several decades
    rscale = rnd.choice([1e-3, 1.0, 1.0, 1.0, 30.0, 1e3])
    xstar = x0 + g.standard_normal(n) * xs * rnd.choice([0.3, 1.0, 3.0])
    A = A * (rscale / xs)
    b = A.dot(xstar) + (g.standard_normal(m) * rscale * rnd.choice([0.0, 0.0, 0.1, 1.0]) if m > n or rnd.random() < 0.3 else 0.0)
    b = np.asarray(b, dtype=float).reshape(m)
    world = {'family': fam, 'A': A.tolist(), 'b': b.tolist()}
    feats.append('fam:' + fam)
    if m < n:
        feats.append('inverse')
    if rnd.random() < P['p_nanregion']:
        a = _unit(g, n)
        # region boundary at distance from x0 comparable with the distance to the solution
        dist = float(np.linalg.norm(xstar - x0)) * rnd.choice([0.2, 0.5, 1.0, 2.0]) + 0.05 * xs
        world['nan_region'] = {'a': a.tolist(), 'c': float(np.dot(a, x0) + dist), 'value': rnd.choice(['nan', 'nan', 'inf'])}
        feats.append('nanregion')

    # ---- rhobeg, scaling, bounds ----------------------------------------------------------------------------
    bounded = (rnd.random() < P['p_bounds'])
    onesided = bounded and (rnd.random() < P['p_onesided'])
    scaling = bounded and not onesided and not has_sets and (rnd.random() < P['p_scaling'])
    default_rhobeg = 0.1 if scaling else 0.1 * max(float(np.max(np.abs(x0))), 1.0)
    if rnd.random() < P['p_explicit_rhobeg']:
        rhobeg = (rnd.choice([0.05, 0.1, 0.25, 0.5]) if scaling else
                  max(float(np.max(np.abs(x0))), 1.0) * rnd.choice([0.01, 0.1, 0.1, 0.5, 1.0]))
        rhobeg_arg = rhobeg
    else:
        rhobeg = default_rhobeg
        rhobeg_arg = None
    if not scaling and rnd.random() < P['p_far_from_origin']:
        # "far from the origin": |x0| / rhobeg up to 1e6, so that absolute and relative thresholds can be told apart
        rhobeg = max(float(np.max(np.abs(x0))), 1.0) * rnd.choice([1e-6, 1e-5, 1e-4])
        rhobeg_arg = rhobeg
        feats.append('far_from_origin')
    # bounds are always generated against the *user-space* step size
    step = rhobeg if not scaling else None
    bounds = None
    if bounded:
        feats.append('bounds')
        lo = np.empty(n)
        hi = np.empty(n)
        for i in range(n):
            if scaling:
                w = abs(x0[i]) * rnd.choice([0.5, 2.0]) + xs * rnd.choice([0.1, 1.0, 5.0, 100.0])
                unit = w * rhobeg   # one rhobeg in user units for this coordinate
            else:
                w = step * rnd.choice([2.0, 2.0, 2.5, 5.0, 20.0, 1e3])
                unit = step
            if has_sets:
                # keep the common interior point inside (or on a face of) the bound box: non-empty interior guaranteed
                place = rnd.choice(['interior', 'interior', 'on_lo', 'on_hi', 'ulp_in_lo', 'ulp_in_hi',
                                    'hair_lo', 'hair_hi', 'thresh_lo', 'thresh_hi'])
            else:
                place = rnd.choice(['interior', 'interior', 'on_lo', 'on_hi', 'ulp_in_lo', 'ulp_out_lo', 'ulp_in_hi',
                                    'ulp_out_hi', 'hair_lo', 'hair_hi', 'thresh_lo', 'thresh_hi', 'below', 'above'])
            if place == 'interior':
                off = w * rnd.uniform(0.05, 0.95)
            elif place == 'on_lo':
                off = 0.0
            elif place == 'on_hi':
                off = w
            elif place in ('ulp_in_lo', 'ulp_out_lo'):
                off = 0.0
            elif place in ('ulp_in_hi', 'ulp_out_hi'):
                off = w
            elif place == 'hair_lo':
                off = unit * rnd.uniform(0.0, 1e-3)
            elif place == 'hair_hi':
                off = w - unit * rnd.uniform(0.0, 1e-3)
            elif place == 'thresh_lo':
                off = unit * rnd.uniform(0.0, 0.02)
            elif place == 'thresh_hi':
                off = w - unit * rnd.uniform(0.0, 0.02)
            elif place == 'below':
                off = -unit * rnd.uniform(0.0, 3.0)
            else:
                off = w + unit * rnd.uniform(0.0, 3.0)
            l = float(x0[i] - off)
            if place == 'ulp_in_lo':
                l = _nudge(float(x0[i]), -1)
            elif place == 'ulp_out_lo':
                l = _nudge(float(x0[i]), +1)
            # upper bound: drawn independently of the lower one and then nudged (never exactly lower + width)
            u = float(l + w)
            if rnd.random() < 0.3:
                # a "round" user number
                digits = max(0, 3 - int(math.floor(math.log10(max(abs(u), 1e-300)))))
                u = round(u, min(digits, 12))
            u = _nudge(u, rnd.choice([0, 0, 1, 2, 3, -1]))
            if place == 'ulp_in_hi':
                u = _nudge(float(x0[i]), +1)
                l = float(u - w)
            elif place == 'ulp_out_hi':
                u = _nudge(float(x0[i]), -1)
                l = float(u - w)
            lo[i] = l
            hi[i] = u
        if scaling:
            need = 0.0
        else:
            need = 2.0 * rhobeg
        # keep the documented precondition min(upper - lower) >= 2*rhobeg true, as the solver evaluates it
        for i in range(n):
            guard = 0
            while not (hi[i] - lo[i] >= need and hi[i] > lo[i]):
                hi[i] = _nudge(float(hi[i]) + (need * 1e-16 if guard > 8 else 0.0), +1 + guard)
                guard += 1
                if guard > 200:
                    hi[i] = lo[i] + 1.01 * max(need, 1.0)
        lower = lo.tolist()
        upper = hi.tolist()
        if onesided:
            feats.append('onesided')
            if rnd.random() < 0.5:
                upper = None
            else:
                lower = None
        elif rnd.random() < P['p_big_entries'] and not scaling:
            feats.append('bigentries')
            for i in range(n):
                r = rnd.random()
                if r < 0.3:
                    lower[i] = -1e20
                elif r < 0.6:
                    upper[i] = 1e20
        bounds = {'lower': lower, 'upper': upper}
    if scaling:
        feats.append('scaling')

    # ---- convex sets ----------------------------------------------------------------------------------------
    sets = []
    if has_sets:
        feats.append('sets')
        z = x0.copy()
        nsets = rnd.choice([1, 1, 2, 2, 3, 4])
        for _ in range(nsets):
            kind = rnd.choice(['ball', 'half', 'box'])
            if kind == 'ball':
                r = rhobeg * rnd.choice([3.0, 10.0, 50.0])
                c = z + _unit(g, n) * r * rnd.uniform(0.0, 0.6)
                sets.append({'kind': 'ball', 'c': c.tolist(), 'r': float(r)})
            elif kind == 'half':
                a = _unit(g, n) * rnd.choice([0.1, 1.0, 10.0])
                margin = rhobeg * rnd.choice([1.0, 5.0, 20.0])
                sets.append({'kind': 'half', 'a': a.tolist(), 'b': float(np.dot(a, z) + margin * np.linalg.norm(a))})
            else:
                w1 = rhobeg * g.uniform(1.0, 20.0, n)
                w2 = rhobeg * g.uniform(1.0, 20.0, n)
                sets.append({'kind': 'box', 'l': (z - w1).tolist(), 'u': (z + w2).tolist()})
        if bounds is not None and rnd.random() > P['p_sets_with_bounds']:
            bounds = None
            feats = [f for f in feats if f not in ('bounds', 'onesided', 'bigentries')]
        if rnd.random() < P['p_infeasible_x0']:
            feats.append('x0_infeasible')
            x0 = z + _unit(g, n) * rhobeg * rnd.choice([5.0, 30.0, 100.0])
            rhobeg_arg = rhobeg      # the default depends on x0, which has just moved
        elif rnd.random() < 0.5:
            x0 = z + _unit(g, n) * rhobeg * rnd.uniform(0.0, 0.9)
            rhobeg_arg = rhobeg
    # ---- regulariser ----------------------------------------------------------------------------------------
    reg = None
    if has_reg:
        reg = {'kind': rnd.choice(['l1', 'l1', 'l2norm']), 'lam': rscale ** 2 * rnd.choice([1e-3, 1e-2, 0.1, 1.0]),
               'style': rnd.choice(['closure', 'args'])}
        feats.append('reg:' + reg['kind'])
        if reg['style'] == 'args':
            feats.append('regargs')

    # ---- npt, budget, radii ---------------------------------------------------------------------------------
    if has_sets:
        npt = rnd.choice([None, n + 1])
    else:
        r = rnd.random()
        if r < 0.45:
            npt = None
        elif r < 0.9:
            npt = rnd.randint(n + 1, 2 * n + 1)
        else:
            npt = rnd.randint(n + 1, (n + 1) * (n + 2) // 2)
    npt_eff = npt if npt is not None else n + 1
    if npt_eff > n + 1:
        feats.append('regression_npt')
    mf = rnd.choice(P['maxfun_choices'])
    if isinstance(mf, str):
        mf = max(1, npt_eff + int(mf[3:] or 0)) if len(mf) > 3 else npt_eff
    if (has_sets or has_reg) and (mf is None or mf > 60):
        mf = rnd.choice([25, 40, 60])
    rhoend = rnd.choice([1e-8, 1e-8, 1e-6, 1e-4, 1e-2]) * (1.0 if scaling else rnd.choice([1.0, 1.0, max(xs, 1e-2)]))
    if rhoend >= rhobeg:
        rhoend = rhobeg * 1e-3

    # ---- user_params ----------------------------------------------------------------------------------------
    up = []

    def setp(k, v):
        up.append([k, v])
    noisy = (not P['deterministic']) and rnd.random() < P['p_noise']
    has_noise_flag = rnd.random() < (0.8 if noisy else P['p_has_noise_flag'] * 0.5)
    use_restarts = rnd.random() < P['p_restarts']
    hard = False
    if use_restarts:
        if not has_noise_flag:
            setp('restarts.use_restarts', True)
        feats.append('restarts')
        if rnd.random() < P['p_hard']:
            hard = True
            setp('restarts.use_soft_restarts', False)
            feats.append('hard')
            if rnd.random() < 0.4:
                setp('restarts.hard.use_old_rk', False)
        else:
            feats.append('soft')
            if rnd.random() < 0.3:
                setp('restarts.soft.move_xk', False)
            if rnd.random() < 0.3:
                setp('restarts.soft.num_geom_steps', rnd.choice([0, 1, 2, 5]))
        if rnd.random() < P['p_increase_npt'] and not has_sets:
            setp('restarts.increase_npt', True)
            setp('restarts.max_npt', rnd.randint(npt_eff, max(npt_eff, 2 * n + 1)))
            if rnd.random() < 0.3:
                setp('restarts.increase_npt_amt', rnd.choice([1, 2, 3]))
            feats.append('increase_npt')
        if rnd.random() < 0.5:
            setp('restarts.max_unsuccessful_restarts', rnd.choice([1, 1, 2, 3]))
        if rnd.random() < 0.3:
            setp('restarts.rhoend_scale', rnd.choice([0.5, 0.1]))
            feats.append('rhoend_scale')
        if rnd.random() < 0.3:
            setp('restarts.auto_detect', False)
        elif rnd.random() < 0.4:
            setp('restarts.auto_detect.history', rnd.choice([3, 5, 8]))
            if rnd.random() < 0.5:
                setp('restarts.auto_detect.min_chgJ_slope', 0.0)
                setp('restarts.auto_detect.min_correl', 0.0)
    elif has_noise_flag and rnd.random() < 0.5:
        setp('restarts.use_restarts', False)
    if npt_eff > n + 1 and rnd.random() < 0.6 or rnd.random() < P['p_regression'] * 0.3:
        setp('regression.num_extra_steps', rnd.choice([1, 1, 2, n, npt_eff, npt_eff + 2]))      # no documented upper limit: the solver caps it
        feats.append('regression_steps')
        if rnd.random() < P['p_momentum'] and not has_sets:
            setp('regression.momentum_extra_steps', True)
            feats.append('momentum')
        if rnd.random() < 0.2:
            setp('regression.increase_num_extra_steps_with_restart', 1)
    if rnd.random() < P['p_random_init'] or (npt_eff > 2 * n + 1 and P['p_random_init'] > 0 and rnd.random() < 0.5):
        if npt_eff <= (n + 1) * (n + 2) // 2:
            setp('init.random_initial_directions', True)
        feats.append('random_init')
        if rnd.random() < 0.4:
            setp('init.run_in_parallel', True)
            feats.append('parallel_init')
        if rnd.random() < 0.4:
            setp('init.random_directions_make_orthogonal', False)
    elif npt_eff > (n + 1) * (n + 2) // 2:
        feats.append('random_init')
    if rnd.random() < P['p_growing'] and npt_eff - 1 > 1 and not has_sets:
        setp('growing.ndirs_initial', rnd.randint(1, npt_eff - 2))
        feats.append('growing')
        r = rnd.random()
        if r < 0.25:
            setp('growing.num_new_dirns_each_iter', rnd.choice([1, 2]))
        elif r < 0.45:
            setp('growing.full_rank.use_full_rank_interp', False)
            setp('growing.perturb_trust_region_step', True)
        if rnd.random() < 0.3:
            setp('growing.do_geom_steps', True)
        if rnd.random() < 0.3:
            setp('growing.reset_delta', True)
            if rnd.random() < 0.5:
                setp('growing.reset_rho', True)
                feats.append('reset_rho')
        if rnd.random() < 0.2:
            setp('growing.safety.reduce_delta', True)
        elif rnd.random() < 0.2:
            setp('growing.safety.full_geom_step', True)
    if rnd.random() < 0.15:
        setp('interpolation.precondition', False)
    diag = rnd.random() < P['p_diag']
    if diag:
        setp('logging.save_diagnostic_info', True)
        feats.append('diag')
        if rnd.random() < 0.5:
            setp('logging.save_poisedness', False)
    if rnd.random() < 0.1:
        setp('interpolation.throw_error_on_nans', True)
        feats.append('throw_on_nan')
    if rnd.random() < 0.15:
        setp('general.check_objfun_for_overflow', False)
    if rnd.random() < 0.1:
        setp('logging.n_to_print_whole_x_vector', rnd.choice([0, 2, 10]))
    # buggify-style tuning: make rare paths common
    if rnd.random() < P['p_buggify']:
        r = rnd.random()
        if r < 0.4:
            setp('general.rounding_error_constant', rnd.choice([1e-3, 10.0, 10.0, 1e3]))
            feats.append('bug:baseshift')
        if rnd.random() < 0.3:
            setp('slow.thresh_for_slow', rnd.choice([0.1, 1.0, 10.0]))
            setp('slow.max_slow_iters', rnd.choice([1, 2, 3]))
            if rnd.random() < 0.5:
                setp('slow.history_for_slow', rnd.choice([1, 2]))
            feats.append('bug:slow')
        if rnd.random() < 0.25:
            setp('model.abs_tol', rscale ** 2 * rnd.choice([1e-6, 1e-3, 1e-1]))
            feats.append('bug:abs_tol')
        elif rnd.random() < 0.15:
            setp('model.rel_tol', rnd.choice([1e-6, 1e-2, 0.5]))
            feats.append('bug:rel_tol')
        if rnd.random() < 0.2:
            setp('tr_radius.gamma_dec', rnd.choice([0.1, 0.9]))
            setp('tr_radius.gamma_inc', rnd.choice([1.0, 4.0]))
        if rnd.random() < 0.15:
            setp('tr_radius.eta1', rnd.choice([0.0, 0.3]))
            setp('tr_radius.eta2', rnd.choice([0.5, 1.0]))
        if rnd.random() < 0.15:
            setp('tr_radius.alpha1', rnd.choice([0.5, 0.01]))
            setp('tr_radius.alpha2', rnd.choice([0.9, 0.1]))
        if rnd.random() < 0.15:
            setp('general.safety_step_thresh', rnd.choice([0.1, 0.9, 2.0]))
        if rnd.random() < 0.1:
            setp('restarts.soft.max_fake_successful_steps', rnd.choice([1, 2, 5]))
    if has_noise_flag and rnd.random() < 0.5 or rnd.random() < 0.05:
        if not has_noise_flag:
            setp('noise.quit_on_noise_level', True)
        if rnd.random() < 0.5:
            setp('noise.additive_noise_level', rscale ** 2 * rnd.choice([1e-6, 1e-2, 1.0]))
        else:
            setp('noise.multiplicative_noise_level', rnd.choice([1e-3, 0.05, 0.5]))
        if rnd.random() < 0.3:
            setp('noise.scale_factor_for_quit', rnd.choice([0.1, 10.0]))
        feats.append('noise_quit')
    if has_sets and rnd.random() < 0.2:
        setp('dykstra.d_tol', rnd.choice([1e-6, 1e-8, 1e-12]))
        if rnd.random() < 0.5:
            setp('dykstra.max_iters', rnd.choice([5, 20, 1000]))
    if has_reg:
        # cost control: one regularised solve costs iterations x 2 S-FISTA runs x (<=500 steps) x Dykstra sweeps, all in Python
        if rnd.random() < 0.85:
            setp('func_tol.max_iters', rnd.choice([20, 50, 100]))
        elif mf is None or mf > 20:
            mf = 20

    # ---- environment ----------------------------------------------------------------------------------------
    noise = {'kind': 'none', 'level': 0.0, 'seed': 0}
    if noisy:
        noise = {'kind': rnd.choice(['mult', 'mult', 'add']), 'level': rnd.choice([1e-6, 1e-3, 1e-2, 1e-1]),
                 'seed': rnd.getrandbits(48)}
        if noise['kind'] == 'add':
            noise['level'] *= rscale
        feats.append('noisy')
    nsm = {'mode': 'none', 'values': []}
    if (not P['deterministic']) and rnd.random() < P['p_nsamples']:
        if rnd.random() < 0.5:
            nsm = {'mode': 'const', 'values': [rnd.choice([1, 2, 2, 3, 4])]}
        else:
            vals = [rnd.choice([1, 1, 2, 3, 4]) for _ in range(rnd.randint(2, 7))]
            if rnd.random() < P['p_bad_nsamples']:
                vals[rnd.randrange(len(vals))] = rnd.choice([0, -1])
                feats.append('bad_nsamples')
            nsm = {'mode': 'table', 'values': vals}
        feats.append('averaging')
    env_draws = 0
    if rnd.random() < P['p_env_draws']:
        env_draws = rnd.choice([1, 2])
    env = {'noise': noise, 'nsamples': nsm, 'rng': {'global_seed': rnd.getrandbits(32), 'env_draws_per_call': env_draws}}

    faults = []
    if rnd.random() < P['p_faults']:
        kinds = P['fault_kinds'] if P['allow_raise'] else [k for k in P['fault_kinds'] if k != 'raise']
        horizon = (mf if mf is not None else 100 * (n + 1))
        horizon = max(1, min(horizon, 120))
        nfaults = rnd.choice([1, 1, 2, 3, 4])
        first_after_init = rnd.random() < 0.5
        for j in range(nfaults):
            lo_k = (npt_eff + 1) if (first_after_init and horizon > npt_eff + 1) else 1
            k = rnd.randint(lo_k, max(lo_k, horizon))
            faults.append({'at': k, 'kind': rnd.choice(kinds), 'comp': rnd.choice(['one', 'all']),
                           'scope': 'from' if rnd.random() < 0.1 else 'once'})
        faults.sort(key=lambda f: f['at'])
        for f_ in faults:
            if f_['kind'] == 'raise':      # exception class as a function of the position: no extra draw, the random stream is unchanged
                f_['exc'] = ['InjectedFault', 'LinAlgError', 'ValueError', 'OverflowError', 'ZeroDivisionError', 'FloatingPointError'][f_['at'] % 6]
        feats.append('faults')

    if has_sets:
        x0_dtype = 'float'
    scn = {
        'schema': SCHEMA,
        'origin': {'base_seed': int(base_seed), 'index': int(index), 'salt': salt},
        'world': world,
        'x0': [float(v) for v in x0], 'x0_dtype': x0_dtype,
        'bounds': bounds,
        'sets': sets,
        'reg': reg,
        'args': {'npt': npt, 'rhobeg': rhobeg_arg, 'rhoend': float(rhoend), 'maxfun': mf,
                 'objfun_has_noise': bool(has_noise_flag), 'scaling_within_bounds': bool(scaling),
                 'do_logging': rnd.random() < P['p_logging'], 'print_progress': rnd.random() < P['p_print_progress'],
                 'user_params': up},
        'env': env,
        'faults': faults,
    }
    if rnd.random() < 0.2:
        scn['args']['argsf'] = True
    fix_consistency(scn)
    scn['features'] = derive_features(scn)
    return scn


def param_dict(scn):
    d = {}
    for k, v in scn['args']['user_params']:
        d[k] = v
    return d


def fix_consistency(scn):
    """Keep documented preconditions true after drawing or after a minimisation step (never widens the domain)."""
    n = len(scn['x0'])
    a = scn['args']
    npt = a['npt'] if a['npt'] is not None else n + 1
    up = []
    seen = set()
    for k, v in a['user_params']:
        if k in seen:
            continue
        seen.add(k)
        if k == 'restarts.max_npt':
            v = max(int(v), npt)
        if k == 'growing.ndirs_initial':
            v = min(max(1, int(v)), npt - 1)
        up.append([k, v])
    a['user_params'] = up
    return scn


def effective(scn):
    """Values the solver will actually use (mirrors the defaulting in solve())."""
    n = len(scn['x0'])
    a = scn['args']
    x0 = np.array(scn['x0'], dtype=float)
    scaling = bool(a['scaling_within_bounds'])
    b = scn['bounds']
    if b is None or b['lower'] is None or b['upper'] is None or scn['sets']:
        scaling = False
    npt = a['npt'] if a['npt'] is not None else n + 1
    rhobeg = a['rhobeg'] if a['rhobeg'] is not None else (0.1 if scaling else 0.1 * max(float(np.max(np.abs(x0))), 1.0))
    maxfun = a['maxfun'] if a['maxfun'] is not None else min(100 * (n + 1), 1000)
    return dict(n=n, npt=npt, rhobeg=rhobeg, rhoend=a['rhoend'], maxfun=maxfun, scaling=scaling)


def derive_features(scn):
    """Feature vector computed from the scenario content (so it stays true after minimisation)."""
    f = set()
    w = scn['world']
    n = len(scn['x0'])
    m = len(w['A'])
    a = scn['args']
    up = param_dict(scn)
    eff = effective(scn)
    f.add('fam:' + w['family'])
    if m < n:
        f.add('inverse')
    if w.get('nan_region'):
        f.add('nanregion')
    b = scn['bounds']
    if b is not None:
        f.add('bounds')
        if b['lower'] is None or b['upper'] is None:
            f.add('onesided')
        elif any(abs(v) >= 1e20 for v in b['lower'] + b['upper']):
            f.add('bigentries')
    if eff['scaling']:
        f.add('scaling')
    if b is not None and any(v is not None and 0.0 < abs(v) < 1e-300 for side in (b['lower'], b['upper']) if side for v in side):
        f.add('denormal_bound')
    if scn.get('sets'):
        f.add('sets')
    if scn.get('reg'):
        f.add('reg:' + scn['reg']['kind'])
        if scn['reg'].get('style') == 'args':
            f.add('regargs')
    if eff['npt'] > n + 1:
        f.add('regression_npt')
    use_restarts = up.get('restarts.use_restarts', bool(a['objfun_has_noise']))
    if use_restarts:
        f.add('restarts')
        if up.get('restarts.use_soft_restarts', True):
            f.add('soft')
        else:
            f.add('hard')
        if up.get('restarts.increase_npt'):
            f.add('increase_npt')
        if up.get('restarts.rhoend_scale', 1.0) != 1.0:
            f.add('rhoend_scale')
    if up.get('regression.num_extra_steps', 0) > 0 or up.get('regression.increase_num_extra_steps_with_restart', 0) > 0:
        f.add('regression_steps')
        if up.get('regression.momentum_extra_steps'):
            f.add('momentum')
    if up.get('init.random_initial_directions', eff['npt'] > (n + 1) * (n + 2) // 2):
        f.add('random_init')
    if up.get('init.run_in_parallel'):
        f.add('parallel_init')
    if up.get('growing.ndirs_initial', eff['npt'] - 1) < eff['npt'] - 1:
        f.add('growing')
    if use_restarts and not up.get('restarts.use_soft_restarts', True) and up.get('restarts.increase_npt') \
            and up.get('restarts.increase_npt_amt', 1) > up.get('restarts.hard.increase_ndirs_initial_amt', 1):
        f.add('growing_after_hard_restart')
    if up.get('growing.reset_rho'):
        f.add('reset_rho')
    if up.get('logging.save_diagnostic_info'):
        f.add('diag')
    if up.get('logging.save_xk') or up.get('logging.save_rk'):
        f.add('save_xk_rk')
    if up.get('interpolation.throw_error_on_nans'):
        f.add('throw_on_nan')
    if up.get('noise.quit_on_noise_level', bool(a['objfun_has_noise'])):
        f.add('noise_quit')
    if scn['env']['noise']['kind'] != 'none':
        f.add('noisy')
    ns = scn['env']['nsamples']
    if ns['mode'] != 'none':
        f.add('averaging')
        if any(v < 1 for v in ns['values']):
            f.add('bad_nsamples')
    if scn.get('faults'):
        f.add('faults')
        for ft in scn['faults']:
            f.add('fault:' + ft['kind'])
    if scn.get('ifaults'):
        f.add('ifaults')
        for ft in scn['ifaults']:
            f.add('ifault:' + ft.get('kind', 'linalg'))
    if 'general.rounding_error_constant' in up:
        f.add('bug:baseshift')
    if 'slow.max_slow_iters' in up or 'slow.thresh_for_slow' in up:
        f.add('bug:slow')
    if 'model.abs_tol' in up:
        f.add('bug:abs_tol')
    if 'model.rel_tol' in up:
        f.add('bug:rel_tol')
    if scn.get('x0_dtype') == 'int':
        f.add('int_dtype')
    if a.get('argsf'):
        f.add('argsf')
    if scn.get('arg_fault'):
        f.add('argfault:%s' % scn['arg_fault']['name'])
    if eff['rhobeg'] <= 2e-4 * max(1.0, max(abs(v) for v in scn['x0'])):
        f.add('far_from_origin')
    return sorted(f)


def features(scn):
    return derive_features(scn)


def clone(scn):
    return copy.deepcopy(scn)


def dumps(obj):
    return json.dumps(obj, sort_keys=True)


def scenario_hash(scn):
    s = dict(scn)
    s.pop('origin', None)
    return hashlib.sha256(dumps(s).encode()).hexdigest()[:16]
