"""Self-tests of the machinery (DESIGN section 7).

  ./check selftest-determinism          same units: in process, in a 16-worker pool, in fresh interpreters under other hash seeds
  ./check selftest-sensitivity [names]  every mutant patch (mutants/*.patch, seeded/*/patch.diff, reverts of the fix: commits)
                                        is applied to a scratch copy outside /repo and /verif; the baseline tests must still pass
                                        there; the property's quick check must exit 1 with a VIOLATION line
"""
import concurrent.futures as cf
import glob
import json
import multiprocessing as mp
import os
import re
import shutil
import subprocess
import sys
import time

from . import runner

ROOT = runner.ROOT
SCRATCH = os.environ.get('DSIM_SCRATCH', '/dev/shm')


def main(cmd, argv):
    if cmd == 'selftest-determinism':
        return determinism(argv)
    if cmd == 'selftest-sensitivity':
        return sensitivity(argv)
    print(__doc__)
    return 2


# ---------------------------------------------------------------------------------------------------------------

def _picks(tier='quick'):
    from . import checks
    picks = []
    for cid in sorted(checks.CHECKS):
        if cid == 'census':
            continue
        for li, leg in enumerate(checks.legs_for(cid, tier)):
            big = leg['leg'] in ('cuts', 'faultpoints') or callable(leg['leg'])
            for idx in ([0] if big else [0, 1, 2]):
                if idx < leg['units']:
                    picks.append((cid, li, idx))
    return picks


def _digests_for(picks, seed, tier, workers):
    from . import checks
    tasks = []
    for cid, li, idx in picks:
        leg = checks.legs_for(cid, tier)[li]
        tasks.append((cid, li, runner.leg_seed(seed, cid, leg['name']), idx, tier))
    if workers <= 1:
        res = [runner._work(t) for t in tasks]
    else:
        with cf.ProcessPoolExecutor(max_workers=workers, mp_context=mp.get_context('fork')) as ex:
            res = list(ex.map(runner._work, tasks))
    out = []
    for r in res:
        out.append(r.get('digests') if 'harness_error' not in r else 'ERR:' + r['harness_error'][-200:])
    return out


def determinism(argv):
    t0 = time.time()
    seed = int(os.environ.get('VERIF_SEED', '20260926'))
    tier = 'quick'
    if argv and argv[0] == '--child':
        spec = json.loads(argv[1])
        print(json.dumps(_digests_for([tuple(p) for p in spec['picks']], spec['seed'], tier, spec['workers'])))
        return 0
    picks = _picks(tier)
    if '--fast' in argv:
        picks = picks[::3]
    print('determinism self-test: %d units across %d checks' % (len(picks), len(set(p[0] for p in picks))), flush=True)
    a = _digests_for(picks, seed, tier, 16)
    configs = [('pool16-again', None, 16), ('fresh-hashseed-12345-1worker', '12345', 1), ('fresh-hashseed-777-16workers', '777', 16)]
    results = {'pool16': a}
    for name, hs, workers in configs:
        if hs is None:
            results[name] = _digests_for(picks, seed, tier, workers)
        else:
            env = dict(os.environ)
            env['DSIM_HASHSEED'] = hs
            env['PYTHONHASHSEED'] = hs
            p = subprocess.run([sys.executable, os.path.join(ROOT, 'dsim_main.py'), 'selftest-determinism', '--child',
                                json.dumps(dict(picks=picks, seed=seed, workers=workers))], env=env, capture_output=True, text=True)
            try:
                results[name] = json.loads(p.stdout.strip().splitlines()[-1])
            except Exception:
                results[name] = 'CHILD-FAILED: ' + (p.stdout[-300:] + p.stderr[-300:])
        print('  %s done (%.0fs)' % (name, time.time() - t0), flush=True)
    mismatches = []
    nruns = 0
    for i, pk in enumerate(picks):
        base = a[i]
        if isinstance(base, list):
            nruns += len(base)
        for name in results:
            other = results[name]
            if not isinstance(other, list) or other[i] != base:
                mismatches.append(dict(unit=list(pk), config=name))
    ev = dict(units=len(picks), simulated_runs_compared=nruns, configurations=list(results.keys()), mismatches=mismatches[:20], wall_s=round(time.time() - t0, 1),
              seed=seed, note='each unit executed 4 times: 16-worker pool (twice), fresh interpreter PYTHONHASHSEED=12345 single process, fresh interpreter PYTHONHASHSEED=777 16-worker pool; digest lists must be identical')
    os.makedirs(runner.EVID, exist_ok=True)
    json.dump(ev, open(os.path.join(runner.EVID, 'determinism.json'), 'w'), indent=1)
    if mismatches:
        print('NONDETERMINISM: %d mismatching units, e.g. %r' % (len(mismatches), mismatches[:3]))
        return 2
    print('determinism self-test passed: %d units, %d simulated runs, 4 executions each, %.0fs' % (len(picks), nruns, time.time() - t0))
    return 0


# ---------------------------------------------------------------------------------------------------------------

def _mutants():
    out = []
    for f in sorted(glob.glob(os.path.join(ROOT, 'mutants', '*.patch'))):
        txt = open(f).read()
        m = re.search(r'^#\s*property:\s*([C0-9, ]+)', txt, re.M)
        props = [p.strip() for p in m.group(1).split(',')] if m else []
        eq = re.search(r'^#\s*equivalent:\s*(.*)$', txt, re.M)
        out.append(dict(name=os.path.basename(f)[:-6], kind='mutant', patch=f, props=props, reverse=False, equivalent=(eq.group(1) if eq else None)))
    for d in sorted(glob.glob(os.path.join(ROOT, 'seeded', '*'))):
        meta = os.path.join(d, 'meta.json')
        pf = os.path.join(d, 'patch.diff')
        if os.path.exists(meta) and os.path.exists(pf):
            mj = json.load(open(meta))
            out.append(dict(name='seeded-' + os.path.basename(d), kind='seeded', patch=pf, props=mj.get('detected_by_checks') or [mj['property']], reverse=False, expect_miss=mj.get('expect_miss', False)))
    # reverts of the fix: commits recorded in KNOWN_FINDINGS.txt
    from . import known as K
    seen = {}
    for e in K.load():
        if e.status == 'fixed' and e.fields.get('commit'):
            seen.setdefault(e.fields['commit'], set()).add(e.property)
    for c, props in seen.items():
        out.append(dict(name='revert-' + c, kind='revert', commit=c, props=sorted(props), reverse=True))
    return out


def _make_scratch(name):
    d = os.path.join(SCRATCH, 'dfols_mut_%s_%d' % (re.sub(r'[^A-Za-z0-9_.-]', '_', name), os.getpid()))
    if os.path.exists(d):
        shutil.rmtree(d)
    subprocess.run(['rsync', '-a', '--exclude', '.git', '--exclude', '__pycache__', '/repo/', d + '/'], check=True)
    return d


def _apply(mut, d):
    if mut['kind'] == 'revert':
        diff = subprocess.run(['git', '-C', '/repo', 'show', '--format=', mut['commit'], '--', 'dfols'], capture_output=True, text=True).stdout
        p = subprocess.run(['patch', '-R', '-p1', '--no-backup-if-mismatch', '-s'], input=diff, text=True, cwd=d, capture_output=True)
    else:
        p = subprocess.run(['patch', '-p1', '--no-backup-if-mismatch', '-s', '-i', mut['patch']], cwd=d, capture_output=True, text=True)
    return p.returncode == 0, (p.stdout + p.stderr)[-300:]


def sensitivity(argv):
    t0 = time.time()
    only = [a for a in argv if not a.startswith('--')]
    skip_tests = '--skip-tests' in argv
    muts = [m for m in _mutants() if not only or any(o in m['name'] for o in only)]
    table = []
    for mut in muts:
        d = _make_scratch(mut['name'])
        row = dict(name=mut['name'], kind=mut['kind'], props=mut['props'])
        try:
            ok, msg = _apply(mut, d)
            if not ok:
                row['status'] = 'patch-failed'
                row['detail'] = msg
                table.append(row)
                print('%-40s patch failed: %s' % (mut['name'], msg[-120:]), flush=True)
                continue
            env = dict(os.environ)
            env.update(OPENBLAS_NUM_THREADS='1', PYTHONDONTWRITEBYTECODE='1')
            if not skip_tests:
                p = subprocess.run([sys.executable, '-m', 'pytest', '-q', '-x', '-p', 'no:cacheprovider', '--timeout=900'], cwd=d, env=env, capture_output=True, text=True)
                row['baseline_tests_pass'] = (p.returncode == 0)
                row['baseline_tail'] = p.stdout.strip().splitlines()[-1] if p.stdout.strip() else ''
                chk = subprocess.run([sys.executable, '-c', 'import dfols; print(dfols.__file__)'], cwd=d, env=env, capture_output=True, text=True).stdout.strip()
                row['tests_ran_against'] = chk
            killed_by = []
            for prop in mut['props']:
                env2 = dict(os.environ)
                env2.update(DFOLS_SRC=d, DSIM_NO_EVIDENCE='1', DSIM_MAX_REPORT='2')
                tcheck = time.time()
                p = subprocess.run([os.path.join(ROOT, 'check'), prop, '--tier', 'quick'], env=env2, capture_output=True, text=True)
                viol = [l for l in p.stdout.splitlines() if l.startswith('VIOLATION')]
                det = [l.strip() for l in p.stdout.splitlines() if l.startswith('  C')][:2]
                row.setdefault('checks', {})[prop] = dict(exit=p.returncode, violations=len(viol), first=det[:1], wall_s=round(time.time() - tcheck, 1))
                if p.returncode == 1 and viol:
                    killed_by.append(prop)
                    if '--all-props' not in argv:
                        break
            row['killed_by'] = killed_by
            row['status'] = 'killed' if killed_by else ('survived-equivalent' if mut.get('equivalent') else ('missed-out-of-scope' if mut.get('expect_miss') else 'SURVIVED'))
            if mut.get('equivalent'):
                row['equivalent_because'] = mut['equivalent']
            print('%-40s %-9s tests_pass=%s %s' % (mut['name'], row['status'], row.get('baseline_tests_pass'), json.dumps(row.get('checks'))[:200]), flush=True)
        finally:
            shutil.rmtree(d, ignore_errors=True)
        table.append(row)
    path = os.path.join(runner.EVID, 'sensitivity.json')
    if only and os.path.exists(path):
        # partial run: merge the re-run rows into the stored table
        old = json.load(open(path))
        names = set(r['name'] for r in table)
        table = [r for r in old.get('table', []) if r['name'] not in names] + table
    ev = dict(mutants=len(table), killed=sum(1 for r in table if r.get('status') == 'killed'), survived=[r['name'] for r in table if r.get('status') == 'SURVIVED'],
              survived_equivalent=[r['name'] for r in table if r.get('status') == 'survived-equivalent'],
              missed_out_of_scope=[r['name'] for r in table if r.get('status') == 'missed-out-of-scope'],
              patch_failed=[r['name'] for r in table if r.get('status') == 'patch-failed'],
              invalid_because_unit_tests_fail=[r['name'] for r in table if r.get('baseline_tests_pass') is False],
              table=table, wall_s=round(time.time() - t0, 1),
              note='kinds: mutant = hand-written (/verif/mutants), seeded = written by an independent sub-agent (/verif/seeded), revert = the fix: commit reverted on HEAD; a revert whose patch no longer applies was superseded by a later fix touching the same lines and is covered by its regression replays (KNOWN_FINDINGS.txt)')
    json.dump(ev, open(path, 'w'), indent=1)
    print('sensitivity: %d mutants, %d killed, survived: %s (%.0fs)' % (ev['mutants'], ev['killed'], ev['survived'], ev['wall_s']))
    return 0 if not ev['survived'] else 1
