"""C19: sessions.  A session is a list of solve() calls executed in ONE interpreter:

    [pristine import]  W(seed A)  W(seed B, environment draws interleaved on the shared RNG)  V1  V2(raises)  W(seed C)

with W a world that enables no option documented (or, conservatively, coded) as using random directions, and V1/V2
arbitrary other worlds (V2 ends in an exception).  All W runs must have identical behaviour digests (evaluation points,
replies, policy calls, iterations, restarts, result) - the global RNG end state is the only thing allowed to differ.
Caller-side copies of every argument of every call (also the raising one) must be unchanged."""
import time

import numpy as np

from . import legs as L
from . import minimise as M
from . import oracles as O
from . import scenario as S
from . import sim

NONRANDOM = dict(p_random_init=0.0, p_growing=0.0, p_increase_npt=0.0, p_momentum=0.0)
RANDOMISED_FEATURES = ('random_init', 'growing', 'growing_after_hard_restart', 'increase_npt', 'momentum', 'parallel_init')


def first_difference(Ha, Hb):
    for i, (a, b) in enumerate(zip(Ha.calls, Hb.calls)):
        if a.x.tobytes() != b.x.tobytes():
            return a.site, 'evaluation %d (%s): x differs by %.3e' % (a.k, a.site, float(np.max(np.abs(a.x - b.x))))
        ra = b'' if a.reply is None else a.reply.tobytes()
        rb = b'' if b.reply is None else b.reply.tobytes()
        if ra != rb:
            return a.site, 'evaluation %d: same x, different reply (harness noise must be counter based!)' % a.k
    if len(Ha.calls) != len(Hb.calls):
        j = min(len(Ha.calls), len(Hb.calls))
        return 'call_count', '%d vs %d evaluations' % (len(Ha.calls), len(Hb.calls))
    if [c[1:] for c in Ha.ns_calls] != [c[1:] for c in Hb.ns_calls]:
        return 'nsamples_calls', 'policy callback received different arguments'
    if Ha.exit_route() != Hb.exit_route():
        return 'exit', '%s vs %s' % (Ha.exit_route(), Hb.exit_route())
    return 'result', 'same evaluations, different result object / iteration record'


def run_session(W, sess, probes=('c19',)):
    """Returns (violations, digest string)."""
    out = []
    runs = []
    digs = []
    if sess.get('fresh', True):
        sim.fresh_dfols()      # the first W run is the first solve() after a pristine import
    for step in sess['steps']:
        if step['kind'] == 'W':
            s = S.clone(W)
            s['env']['rng']['global_seed'] = step['global_seed']
            s['env']['rng']['env_draws_per_call'] = step['env_draws']
        else:
            s = step['scenario']
        H = sim.run_scenario(s, probes=probes)
        for v in O.check_C19_caller(H):
            v['detail'] = 'session step %s: %s' % (step['kind'], v['detail'])
            out.append(v)
        digs.append(H.digest())
        if step['kind'] == 'W':
            runs.append(H)
    randomised = any(f in RANDOMISED_FEATURES for f in S.features(W))
    H0 = runs[0]
    if W.get('sets'):
        nruns = max(1, H0.run_idx + 1)
        if getattr(H0, 'qr_rank_calls', 0) > 3 * nruns:
            randomised = True      # the convex initialiser had to repair a rank-deficient coordinate set (random path)
    if not randomised:
        d0 = H0.digest(include_rng=False)
        for j, Hj in enumerate(runs[1:], 1):
            if Hj.digest(include_rng=False) != d0:
                site, what = first_difference(H0, Hj)
                out.append(O.V('C19', 'not_reproducible', site, 'W run %d differs from W run 0 (global seeds %s vs %s): %s' % (
                    j, sess['steps'][0]['global_seed'], [st for st in sess['steps'] if st['kind'] == 'W'][j]['global_seed'], what)))
                break
    return out, '/'.join(digs), runs, randomised


def draw_session(base_seed, index, opts):
    prof = S.profile(**dict(opts['profile_over'], **NONRANDOM))
    W = S.draw(base_seed, index, prof, salt='session-W')
    W['faults'] = []
    rnd = S.rng_for(base_seed, index, 'session')
    vprof = S.profile(p_faults=0.0, maxfun_choices=[3, 10, 25, 40], p_random_init=0.3, p_growing=0.0)
    V1 = S.draw(base_seed, index, vprof, salt='session-V1')
    V2 = S.draw(base_seed, index, vprof, salt='session-V2')
    V2['faults'] = [{'at': rnd.choice([1, 2, 3, 5, 8]), 'kind': 'raise', 'comp': 'all', 'scope': 'once'}]
    steps = [dict(kind='W', global_seed=rnd.getrandbits(32), env_draws=0),
             dict(kind='W', global_seed=rnd.getrandbits(32), env_draws=rnd.choice([1, 2, 3])),
             dict(kind='V', scenario=V1),
             dict(kind='V', scenario=V2),
             dict(kind='W', global_seed=rnd.getrandbits(32), env_draws=rnd.choice([0, 1]))]
    return W, dict(steps=steps)


def leg_sessions(base_seed, index, opts):
    t0 = time.time()
    res = L.new_result()
    per = opts.get('per_unit', 3)
    for j in range(per):
        idx = index * per + j
        W, sess = draw_session(base_seed, idx, opts)
        vs, dig, runs, randomised = run_session(W, sess)
        for H in runs:
            L.account(res, H)
        res['digests'].append(dig)
        L._bump(res['stats'], 'sessions')
        L._bump(res['stats'], 'W_runs_compared', 0 if randomised else len(runs))
        if randomised:
            L._bump(res['stats'], 'sessions_moved_to_randomised_class')
        for v in vs:
            rec = dict(v)
            rec['scenario'] = W
            rec['session'] = sess
            rec['kind'] = 'session'
            rec['features'] = S.features(W)
            res['violations'].append(rec)
        if not res['samples']:
            res['samples'].append(dict(W=L.sample_of(W, runs[0]), steps=[dict(kind=s['kind'], global_seed=s.get('global_seed'), env_draws=s.get('env_draws'),
                                  other=(s['scenario']['features'] if s['kind'] == 'V' else None)) for s in sess['steps']]))
    res['wall'] = time.time() - t0
    return res


def reproduce(rec):
    vs, dig, runs, randomised = run_session(rec['scenario'], rec['session'])
    for v in vs:
        v['features'] = S.features(rec['scenario'])
    return vs, dig


def minimise(rec, same_failure):
    """Shrink the session: drop the V steps, then shrink W with the generic scenario minimiser."""
    base = dict(rec)
    sess = rec['session']

    def fails_with(W, sess_):
        try:
            vs, _, _, _ = run_session(W, sess_)
        except BaseException:
            return False
        return same_failure(vs, base['expect']) is not None
    for drop in range(len(sess['steps']) - 1, -1, -1):
        if sess['steps'][drop]['kind'] == 'V' or sum(1 for s in sess['steps'] if s['kind'] == 'W') > 2:
            cand = dict(steps=[s for i, s in enumerate(sess['steps']) if i != drop])
            if sum(1 for s in cand['steps'] if s['kind'] == 'W') >= 2 and cand['steps'][0]['kind'] == 'W' and fails_with(rec['scenario'], cand):
                sess = cand
    small, info = M.minimise(rec['scenario'], lambda s: fails_with(s, sess), max_runs=150, max_seconds=45.0)
    rec = dict(rec)
    rec['scenario'] = small
    rec['session'] = sess
    rec['minimisation'] = info
    return rec
