"""The simulator proper: runs ONE scenario against the real dfols code with every external party played by the
harness (objfun, nsamples, projections, h, prox, global RNG, logging, warnings, stdout), records the complete
history of what crossed each seam, and bounds the run deterministically.

    run_scenario(scn, probes=...) -> History

Nothing in here decides a property; oracles.py reads the History."""
import contextlib
import hashlib
import inspect
import io
import logging
import re
import signal
import struct
import sys
import traceback
import warnings

import numpy as np

from . import scenario as S
from . import worlds as W

EPS = W.EPS


class InjectedFault(Exception):
    """The exception raised by a `raise` fault.  Must reach the caller of solve() by identity."""


class StepCap(BaseException):
    """Deterministic liveness bound exceeded (see DESIGN 3.7)."""


class HarnessTimeout(BaseException):
    pass


class Call(object):
    __slots__ = ('k', 'seq', 'x', 'reply', 'fault', 'site', 'ev', 'log', 'run', 'raised', 'args_ok', 'want')

    def __init__(self, k, seq, x, site, run):
        self.k = k
        self.seq = seq
        self.x = x
        self.reply = None
        self.fault = None
        self.site = site
        self.ev = None
        self.log = None
        self.run = run
        self.raised = False
        self.args_ok = True
        self.want = None


class IterSnap(object):
    __slots__ = ('seq', 'run', 'it', 'nf', 'nx', 'rho', 'delta', 'npt', 'kopt', 'objopt', 'objsave', 'final', 'nrestarts',
                 'rhoend_ctrl', 'interp_ok')


class DykCall(object):
    __slots__ = ('seq', 'mod', 'func', 'p', 'tol', 'max_iter', 'sweeps', 'xin', 'xout', 'ncalls')


class History(object):
    def __init__(self, scn):
        self.scn = scn
        self.seq = 0
        self.calls = []
        self.ns_calls = []          # (seq, args tuple, reply)
        self.iters = []
        self.restarts = []          # (kind, seq, nf_at_restart, run)
        self.controllers = []
        self.run_idx = -1           # index of the current solve_main invocation
        self.run_returns = []       # per solve_main return: (obj, nf, nx, nruns, flag, msg)
        self.dyk = []               # DykCall (only when probe 'dyk' is on)
        self.dyk_model_out = set()  # bytes of every output of a Dykstra call made from dfols.model
        self.dyk_solver_out = []
        self.insitu = []            # violations found by in-situ probes: dict(prop, clause, site, detail)
        self.insitu_counts = {}     # name -> number of in-situ assertions evaluated
        self.log_counts = {}
        self.log_anomalies = []
        self.warns = []
        self.stdout = ''
        self.soln = None
        self.exc = None
        self.exc_site = None
        self.exc_tb = None
        self.stepcap = None
        self.timeout = False
        self.injected = None
        self.rng_end = None
        self.caller_before = None
        self.caller_after_ok = None
        self.caller_diff = None
        self.in_probe = False
        self.h_calls = 0
        self.prox_calls = 0
        self.proj_calls = 0
        self.faults_fired = {}
        self.lin_calls = []         # site of every call of Model.solve_geom_system made from a context that handles LinAlgError
        self.ifaults_fired = []     # (j, site) of injected linear-algebra failures
        self._last_ok_R = None
        self.last_ctrl_state = None
        self.same_state_count = 0
        self.iter_total = 0
        self.base_shifts = 0
        self.argsf_token = None
        self.seam_events = 0
        self.eff = S.effective(scn)

    def count(self, name, k=1):
        self.insitu_counts[name] = self.insitu_counts.get(name, 0) + k

    def flag_insitu(self, prop, clause, site, detail):
        if len(self.insitu) < 50:
            self.insitu.append(dict(prop=prop, clause=clause, site=site, detail=detail, seq=self.seq))

    # ------------------------------------------------------------------------------------------------------
    def digest(self, include_rng=True):
        h = hashlib.sha256()
        for c in self.calls:
            h.update(struct.pack('<qq', c.k, c.seq))
            h.update(c.x.tobytes())
            h.update(b'R' if c.raised else (c.reply.tobytes() if c.reply is not None else b'N'))
            if c.ev is not None:
                h.update(struct.pack('<qq', *c.ev))
            if c.log is not None:
                h.update(struct.pack('<qq', *c.log))
        for (seq, args, reply) in self.ns_calls:
            h.update(struct.pack('<q', seq))
            h.update(repr(args).encode())
            h.update(repr(reply).encode())
        for s in self.iters:
            h.update(struct.pack('<qqqqddq', s.seq, s.run, s.nf, s.nx, s.rho, s.delta, s.npt))
        for r in self.restarts:
            h.update(repr(r).encode())
        if self.soln is not None:
            s = self.soln
            for a in (s.x, s.resid, s.jacobian, s.jacmin_eval_nums):
                h.update(b'-' if a is None else np.asarray(a).tobytes())
            h.update(repr((None if s.obj is None else float(s.obj), int(s.nf), int(s.nx), int(s.nruns), int(s.flag), str(s.msg),
                           None if s.xmin_eval_num is None else int(s.xmin_eval_num))).encode())
        if self.exc is not None:
            h.update(('EXC:%s:%s' % (type(self.exc).__name__, self.exc_site)).encode())
        if self.stepcap is not None:
            h.update(b'STEPCAP')
        for jf in self.ifaults_fired:
            h.update(('IF:%d:%s' % jf).encode())
        if include_rng:
            h.update(repr(self.rng_end).encode())
        return h.hexdigest()

    def path_signature(self):
        """Sequence of evaluation-requesting routines + restart kinds + exit route, hashed (distinct-history measure)."""
        h = hashlib.sha256()
        for c in self.calls:
            h.update(c.site.encode())
            h.update(b'!' if c.fault else b'.')
        for r in self.restarts:
            h.update(r[0].encode())
        for jf in self.ifaults_fired:
            h.update(('IF:%s' % jf[1]).encode())
        h.update(self.exit_route().encode())
        return h.hexdigest()[:16]

    def exit_route(self):
        if self.stepcap is not None:
            return 'STEPCAP'
        if self.exc is not None:
            return 'EXC:%s@%s' % (type(self.exc).__name__, self.exc_site)
        if self.soln is None:
            return 'NONE'
        return '%d:%s' % (int(self.soln.flag), str(self.soln.msg)[:60])


# -------------------------------------------------------------------------------------------------------------
# building the environment from the scenario
# -------------------------------------------------------------------------------------------------------------

_DFOLS_FILES = ('controller.py', 'solver.py', 'model.py', 'trust_region.py', 'util.py', 'diagnostic_info.py', 'params.py')
_site_cache = {}


def _solve_main_eval_lines():
    if 'lines' not in _site_cache:
        import inspect
        import dfols.solver as ds
        try:
            src, start = inspect.getsourcelines(ds.solve_main.__wrapped__ if hasattr(ds.solve_main, '__wrapped__') else ds.solve_main)
            lines = [start + i for i, l in enumerate(src) if 'control.evaluate_objective(' in l]
        except Exception:
            lines = []
        _site_cache['lines'] = lines
    return _site_cache['lines']


_LIN_HANDLED = {('interpolate_mini_models_svd',): 'fit', ('lagrange_gradient', 'geometry_step'): 'geom',
                ('lagrange_gradient', 'choose_point_to_replace'): 'choose'}


def linalg_site():
    """Which LinAlgError handler (if any) encloses the current call of Model.solve_geom_system: 'fit', 'geom', 'choose' or None."""
    f = sys._getframe(2)
    names = []
    depth = 0
    while f is not None and depth < 12 and len(names) < 2:
        co = f.f_code
        fn = co.co_filename
        if fn.endswith(_DFOLS_FILES) and '/dfols/' in fn:
            names.append(co.co_name)
        f = f.f_back
        depth += 1
    if names and names[0] == 'interpolate_mini_models_svd':
        return 'fit'
    return _LIN_HANDLED.get(tuple(names))


def find_site():
    f = sys._getframe(2)
    names = []
    depth = 0
    while f is not None and depth < 40:
        co = f.f_code
        fn = co.co_filename
        if fn.endswith(_DFOLS_FILES) and '/dfols/' in fn:
            nm = co.co_name
            if nm == 'solve_main':
                if not names:
                    return 'x0'
                if names == ['evaluate_objective']:
                    lines = _solve_main_eval_lines()
                    ln = f.f_lineno
                    if len(lines) >= 2:
                        # first call site in the source is the final "check xnew" step, the second the trust-region step
                        return 'final_check' if abs(ln - lines[0]) <= 3 else 'tr_step'
                    return 'main_loop'
                break
            if nm not in ('eval_least_squares_with_regularisation', 'evaluate_objective', '<lambda>'):
                names.append(nm)
            elif nm == 'evaluate_objective' and not names:
                names.append(nm)
        f = f.f_back
        depth += 1
    names = [nm for nm in names if nm != 'evaluate_objective']
    return '<'.join(names[:2]) if names else '?'


def innermost_dfols_function(tb):
    """Name of the innermost dfols function in a traceback (site of an exception)."""
    site = None
    for fs in traceback.extract_tb(tb):
        if '/dfols/' in fs.filename and fs.filename.endswith(_DFOLS_FILES):
            site = '%s.%s' % (fs.filename.rsplit('/', 1)[1][:-3], fs.name)
    return site or 'outside-dfols'


EXC_KINDS = ['InjectedFault', 'LinAlgError', 'ValueError', 'OverflowError', 'ZeroDivisionError', 'FloatingPointError']


def make_injected(name, k):
    """The exception object of a `raise` fault.  Besides the harness' own class, the classes dfols itself catches somewhere
    (LinAlgError, ValueError, OverflowError) and two arithmetic ones: user code fails with ordinary exceptions, and a handler
    that encloses an evaluation would swallow exactly those (seeded change C08d)."""
    msg = 'injected at evaluation %d' % k
    if name in (None, 'InjectedFault'):
        return InjectedFault(msg)
    if name == 'LinAlgError':
        return np.linalg.LinAlgError(msg)
    return {'ValueError': ValueError, 'OverflowError': OverflowError, 'ZeroDivisionError': ZeroDivisionError,
            'FloatingPointError': FloatingPointError}[name](msg)


class Env(object):
    """All the parties dfols talks to, built from scenario data."""

    def __init__(self, scn, hist):
        self.scn = scn
        self.H = hist
        w = scn['world']
        self.n, self.m = W.world_dims(w)
        self.resid = W.make_residual(w)
        self.noise = scn['env']['noise']
        self.env_draws = int(scn['env']['rng'].get('env_draws_per_call', 0))
        self.fault_once = {}
        self.fault_from = []
        for f in scn.get('faults', []):
            if f.get('scope', 'once') == 'from':
                self.fault_from.append(f)
            else:
                self.fault_once.setdefault(int(f['at']), f)
        self.fault_from.sort(key=lambda f: f['at'])
        self.ifault_at = {}
        for f in scn.get('ifaults', []) or []:
            self.ifault_at[int(f['at'])] = f
        nsm = scn['env']['nsamples']
        self.ns_mode = nsm['mode']
        self.ns_values = list(nsm['values'])
        self.argsf = ()
        if scn['args'].get('argsf'):
            self.argsf = (np.array([1.0, 2.0]),)
        self.sets = scn.get('sets') or []
        self.projs = [self._counting(W.make_projector(s)) for s in self.sets]
        self.reg = None
        if scn.get('reg'):
            self.reg = W.make_regulariser(scn['reg'], self.n)

    def _counting(self, f):
        H = self.H

        def proj(x):
            H.proj_calls += 1
            return f(x)
        return proj

    # -- objfun -------------------------------------------------------------------------------------------------
    def objfun(self, x, *args):
        H = self.H
        H.seq += 1
        H.seam_events += 1
        k = len(H.calls) + 1
        xc = np.array(x, dtype=float, copy=True)
        c = Call(k, H.seq, xc, find_site(), H.run_idx)
        if len(args) != len(self.argsf) or any(a is not b for a, b in zip(args, self.argsf)):
            c.args_ok = False
        H.calls.append(c)
        for _ in range(self.env_draws):
            np.random.standard_normal()
        with np.errstate(all='ignore'):
            r = np.asarray(self.resid(xc), dtype=float)
            nz = self.noise
            if nz['kind'] != 'none':
                z = W.noise_vector(nz['seed'], k, self.m)
                if nz['kind'] == 'mult':
                    r = r * (1.0 + nz['level'] * z)
                else:
                    r = r + nz['level'] * z
        f = self.fault_once.get(k)
        if f is None:
            for ff in self.fault_from:
                if k >= ff['at']:
                    f = ff
        if f is not None:
            kind = f['kind']
            c.fault = kind
            H.faults_fired[kind] = H.faults_fired.get(kind, 0) + 1
            if kind == 'raise':
                c.raised = True
                exc = make_injected(f.get('exc'), k)
                H.injected = exc
                raise exc
            val = {'nan': np.nan, '+inf': np.inf, '-inf': -np.inf, '1e200': 1e200}[kind]
            r = r.copy()
            if f.get('comp', 'one') == 'all':
                r[:] = val
            else:
                r[(k * 7) % self.m] = val
        c.reply = r.copy()
        return r

    # -- nsamples -----------------------------------------------------------------------------------------------
    def nsamples(self, delta, rho, it, nruns):
        H = self.H
        H.seq += 1
        H.seam_events += 1
        idx = len(H.ns_calls)
        if self.ns_mode == 'const':
            v = self.ns_values[0]
        else:
            v = self.ns_values[idx % len(self.ns_values)]
        H.ns_calls.append((H.seq, (float(delta), float(rho), int(it), int(nruns)), v))
        return v

    # -- regulariser --------------------------------------------------------------------------------------------
    def h_closure(self, x):
        self.H.h_calls += 1
        return self.reg['hval'](np.asarray(x, dtype=float))

    def h_args(self, x, lam_token):
        self.H.h_calls += 1
        if lam_token is not self._lam_token:
            self.H.flag_insitu('C06', 'argsh_not_passed_through', 'h', 'h received a different extra argument')
        return self.reg['hval'](np.asarray(x, dtype=float))

    def prox_closure(self, x, u):
        self.H.prox_calls += 1
        return self.reg['proxval'](np.asarray(x, dtype=float), float(u))

    def prox_args(self, x, u, lam_token):
        self.H.prox_calls += 1
        return self.reg['proxval'](np.asarray(x, dtype=float), float(u))

    def solve_kwargs(self):
        scn = self.scn
        a = scn['args']
        kw = {}
        if scn['bounds'] is not None:
            b = scn['bounds']
            dt = int if scn.get('x0_dtype') == 'int' and all(float(v).is_integer() and abs(v) < 2 ** 53 for side in (b['lower'], b['upper']) if side for v in side) else float
            lo = None if b['lower'] is None else np.array(b['lower'], dtype=dt)
            hi = None if b['upper'] is None else np.array(b['upper'], dtype=dt)
            kw['bounds'] = (lo, hi)
        if self.projs:
            kw['projections'] = list(self.projs)
        if self.reg is not None:
            if self.reg['style'] == 'args':
                self._lam_token = np.array([self.reg['lam']])
                kw['h'] = self.h_args
                kw['prox_uh'] = self.prox_args
                kw['argsh'] = (self._lam_token,)
                kw['argsprox'] = (self._lam_token,)
            else:
                kw['h'] = self.h_closure
                kw['prox_uh'] = self.prox_closure
            kw['lh'] = self.reg['lh']
        if self.argsf:
            kw['argsf'] = self.argsf
        for key in ('npt', 'rhobeg', 'maxfun'):
            if a.get(key) is not None:
                kw[key] = a[key]
        kw['rhoend'] = a['rhoend']
        if self.ns_mode != 'none':
            kw['nsamples'] = self.nsamples
        if a['user_params']:
            kw['user_params'] = dict((k, v) for k, v in a['user_params'])
        kw['objfun_has_noise'] = bool(a['objfun_has_noise'])
        kw['scaling_within_bounds'] = bool(a['scaling_within_bounds'])
        kw['do_logging'] = bool(a['do_logging'])
        kw['print_progress'] = bool(a['print_progress'])
        if scn.get('arg_fault'):
            from . import catalogue
            catalogue.apply_arg_fault(scn['arg_fault'], self.x0(), kw, scn)
        return kw

    def x0(self):
        if self.scn.get('x0_dtype') == 'int':
            return np.array(self.scn['x0'], dtype=float).astype(int)
        return np.array(self.scn['x0'], dtype=float)


# -------------------------------------------------------------------------------------------------------------
# caller-side snapshots (C19)
# -------------------------------------------------------------------------------------------------------------

def _snap(obj):
    if isinstance(obj, np.ndarray):
        return ('nd', str(obj.dtype), obj.shape, obj.tobytes())
    if isinstance(obj, (list, tuple)):
        return (type(obj).__name__, tuple(_snap(o) for o in obj))
    if isinstance(obj, dict):
        return ('dict', tuple((k, _snap(v)) for k, v in obj.items()))
    if callable(obj):
        return ('callable', id(obj))
    return ('val', type(obj).__name__, repr(obj))


def snapshot_call(x0, kw):
    return _snap([x0, [(k, kw[k]) for k in sorted(kw)]])


# -------------------------------------------------------------------------------------------------------------
# instrumentation
# -------------------------------------------------------------------------------------------------------------

_EVAL_RE = re.compile(r'Function eval (\d+) at point (\d+) has obj = (\S+) at x = ')


class _LogTap(logging.Handler):
    def __init__(self, H):
        logging.Handler.__init__(self, level=logging.INFO)
        self.H = H

    def emit(self, record):
        H = self.H
        try:
            msg = record.getMessage()
        except Exception:
            msg = str(record.msg)
        mm = _EVAL_RE.match(msg)
        if mm:
            H.seq += 1
            i, j = int(mm.group(1)), int(mm.group(2))
            if H.calls and H.calls[-1].log is None and not H.calls[-1].raised:
                H.calls[-1].log = (i, j)
            else:
                H.log_anomalies.append(('unpaired', H.seq, i, j))
        else:
            key = ' '.join(msg.split()[:3])
            H.log_counts[key] = H.log_counts.get(key, 0) + 1


class Instrument(object):
    """Installs and removes the harness-side wrappers.  `probes` selects optional (more expensive) ones."""

    def __init__(self, H, probes):
        self.H = H
        self.probes = set(probes or ())
        self.saved = []

    def _patch(self, obj, name, new):
        self.saved.append((obj, name, obj.__dict__[name] if isinstance(obj, type) else getattr(obj, name)))
        setattr(obj, name, new)

    def __enter__(self):
        import dfols.controller as dc
        import dfols.model as dm
        import dfols.solver as ds
        H = self.H
        probes = self.probes

        # --- numbering as handed to the evaluation routine (same content as the log line, also when logging is off)
        for mod in (ds, dc):
            orig = mod.eval_least_squares_with_regularisation

            sig = inspect.signature(orig)

            def ev(*a, _orig=orig, _sig=sig, **kw):
                # signature-transparent: the call is forwarded exactly as made (a wrapper that re-maps arguments by name would
                # silently repair a call site / signature mismatch in the code under test); binding is for observation only
                ncalls = len(H.calls)
                try:
                    return _orig(*a, **kw)
                finally:
                    if len(H.calls) == ncalls + 1:
                        try:
                            ba = _sig.bind(*a, **kw)
                            ba.apply_defaults()
                            H.calls[-1].ev = (int(ba.arguments.get('eval_num', 0)), int(ba.arguments.get('pt_num', 0)))
                        except Exception:
                            H.calls[-1].ev = None
                    elif len(H.calls) != ncalls:
                        H.log_anomalies.append(('multi-call', H.seq, len(H.calls) - ncalls))
            self._patch(mod, 'eval_least_squares_with_regularisation', ev)

        # --- capture every controller
        orig_init = dc.Controller.__dict__['__init__']

        def ctrl_init(self_, *a, **kw):
            orig_init(self_, *a, **kw)
            H.controllers.append(self_)
            self_._dsim_rhoend0 = self_.rhoend
        self._patch(dc.Controller, '__init__', ctrl_init)

        # --- soft restarts performed
        orig_sr = dc.Controller.__dict__['soft_restart']

        def soft_restart(self_, *a, **kw):
            nf0 = self_.nf
            out = orig_sr(self_, *a, **kw)
            # a restart was *started* when the admission test passed; it was *performed* when it returned None.
            H.restarts_attempted = getattr(H, 'restarts_attempted', 0) + 1
            if out is None:
                H.restarts.append(('soft', H.seq, int(nf0), H.run_idx))
            return out
        self._patch(dc.Controller, 'soft_restart', soft_restart)

        # --- hard restarts = every call of solve_main after the first
        orig_sm = ds.solve_main

        def solve_main(*a, **kw):
            H.run_idx += 1
            if H.run_idx > 0:
                H.restarts.append(('hard', H.seq, int(a[11]) if len(a) > 11 else -1, H.run_idx))
            out = orig_sm(*a, **kw)
            try:
                H.run_returns.append((float(out[2]), int(out[5]), int(out[6]), int(out[7]), int(out[8].flag), str(out[8].msg),
                                      int(out[10]) if out[10] is not None else None))
            except Exception:
                H.run_returns.append(None)
            return out
        solve_main.__wrapped__ = orig_sm
        self._patch(ds, 'solve_main', solve_main)

        # --- once per main-loop iteration
        orig_interp = dm.Model.__dict__['interpolate_mini_models_svd']
        iter_hooks = []
        H._iter_hooks = iter_hooks

        def interp(self_, *a, **kw):
            n_before = len(H.iters)
            on_iteration(H, self_, iter_hooks)
            out = orig_interp(self_, *a, **kw)
            if len(H.iters) == n_before + 1:
                try:
                    H.iters[-1].interp_ok = bool(out[0])
                except Exception:
                    pass
            return out
        self._patch(dm.Model, 'interpolate_mini_models_svd', interp)

        # --- internal seam: the linear solve with the (cached) factorisation of the interpolation system.  dfols handles a
        # LinAlgError from it in three places (model fit, geometry step, choice of the point to replace); calls made from those
        # contexts are numbered, and the scenario may ask for the j-th of them to fail ("singular system", buggify-style fault)
        orig_sgs = dm.Model.__dict__['solve_geom_system']
        ifault_at = H.env.ifault_at if getattr(H, 'env', None) is not None else {}

        def solve_geom_system(self_, *a, **kw):
            # A failure is *feasible* only if the factorisation was recomputed since the last solve that succeeded: LinAlgError comes
            # from the triangular solve and depends on R alone, so with the same cached R a later solve fails iff an earlier one did
            # (e.g. the second choose_point_to_replace call of an iteration can never fail after the first one succeeded).
            R_now = getattr(self_, 'R', None) if getattr(self_, 'factorisation_current', False) else None
            feasible = (R_now is None) or (R_now is not H._last_ok_R)
            site = linalg_site() if feasible else None
            if site is not None and not H.in_probe:
                H.lin_calls.append(site)
                f = ifault_at.get(len(H.lin_calls))
                if f is not None and f.get('kind', 'linalg') == 'linalg':
                    H.seq += 1
                    H.ifaults_fired.append((len(H.lin_calls), site))
                    H.faults_fired['linalg@' + site] = H.faults_fired.get('linalg@' + site, 0) + 1
                    import numpy.linalg as _npl
                    raise _npl.LinAlgError('injected: singular interpolation system')
            out = orig_sgs(self_, *a, **kw)
            H._last_ok_R = R_now      # also for calls made by probes: a success with this R makes a later failure with it infeasible
            return out
        self._patch(dm.Model, 'solve_geom_system', solve_geom_system)

        orig_shift = dm.Model.__dict__['shift_base']

        def shift_base(self_, *a, **kw):
            H.base_shifts += 1
            return orig_shift(self_, *a, **kw)
        self._patch(dm.Model, 'shift_base', shift_base)

        # --- optional probes
        from . import probes as PR
        PR.install(self, H, probes, iter_hooks)

        # --- logging tap
        self.logger = logging.getLogger('dfols')
        self.saved_logger = (self.logger.level, self.logger.propagate, list(self.logger.handlers))
        self.tap = _LogTap(H)
        self.logger.handlers = [self.tap]
        self.logger.setLevel(logging.INFO)
        self.logger.propagate = False
        return self

    def __exit__(self, *exc):
        for obj, name, old in reversed(self.saved):
            setattr(obj, name, old)
        self.logger.handlers = self.saved_logger[2]
        self.logger.setLevel(self.saved_logger[0])
        self.logger.propagate = self.saved_logger[1]
        return False


def on_iteration(H, model, hooks):
    H.iter_total += 1
    ctrl = H.controllers[-1] if H.controllers and H.controllers[-1].model is model else None
    if ctrl is None:
        return
    s = IterSnap()
    s.seq = H.seq
    s.run = H.run_idx
    s.it = H.iter_total
    s.nf = int(ctrl.nf)
    s.nx = int(ctrl.nx)
    s.rho = float(ctrl.rho)
    s.delta = float(ctrl.delta)
    s.npt = int(model.npt())
    s.kopt = int(model.kopt)
    s.objopt = float(model.objval[model.kopt])
    s.objsave = None if model.objsave is None else float(model.objsave)
    s.nrestarts = len(H.restarts)
    s.rhoend_ctrl = float(ctrl.rhoend)
    s.final = None
    s.interp_ok = None
    H.iters.append(s)
    # deterministic liveness bound (i): no-progress fixed point
    state = (s.nf, s.nx, s.nrestarts, s.npt, s.kopt, s.rho, s.delta, model.xbase.tobytes())
    if state == H.last_ctrl_state:
        H.same_state_count += 1
        if H.same_state_count >= 50:
            H.stepcap = 'no-progress fixed point: 50 identical iteration states (nf=%d rho=%g delta=%g)' % (s.nf, s.rho, s.delta)
            raise StepCap(H.stepcap)
    else:
        H.last_ctrl_state = state
        H.same_state_count = 0
    # (ii) gross backstop
    if H.iter_total > 400 * H.eff['maxfun'] + 20000:
        H.stepcap = 'iteration backstop exceeded (%d iterations)' % H.iter_total
        raise StepCap(H.stepcap)
    for hk in hooks:
        H.in_probe = True
        try:
            hk(H, ctrl, model, s)
        finally:
            H.in_probe = False


def fresh_dfols():
    """Re-executes the dfols modules in dependency order (importlib.reload keeps the module objects, so every function-level
    `import dfols.x as dx` of the harness sees the new contents).  Afterwards module-level and class-level state is what a fresh
    interpreter has right after `import dfols`: the next solve() is 'the first call in this process'.  Used by the C19 sessions:
    pool workers are long-lived, and state that a first call leaves behind in a class attribute or a module-level cache would
    otherwise already be there when a session starts (seeded change C19e)."""
    import importlib
    import dfols
    for name in ('util', 'params', 'hessian', 'trust_region', 'model', 'diagnostic_info', 'controller', 'solver'):
        mod = sys.modules.get('dfols.' + name)
        if mod is not None:
            importlib.reload(mod)
    importlib.reload(dfols)
    _site_cache.clear()


def _alarm(signum, frame):
    raise HarnessTimeout()


def run_scenario(scn, probes=(), wall_guard=600):
    """Run one scenario.  Pure function of (scn, code under test)."""
    import dfols
    H = History(scn)
    env = Env(scn, H)
    H.env = env
    x0 = env.x0()
    kw = env.solve_kwargs()
    H.caller_before = snapshot_call(x0, kw)
    H.kw = kw
    H.x0_arg = x0
    out = io.StringIO()
    old_handler = None
    if wall_guard:
        old_handler = signal.signal(signal.SIGALRM, _alarm)
        signal.setitimer(signal.ITIMER_REAL, wall_guard)
    saved_err = np.geterr()
    try:
        np.seterr(all='ignore')
        np.random.seed(int(scn['env']['rng']['global_seed']) & 0xffffffff)
        with Instrument(H, probes), warnings.catch_warnings(record=True) as wlist, contextlib.redirect_stdout(out):
            warnings.simplefilter('always')
            try:
                H.soln = dfols.solve(env.objfun, x0, **kw)
            except StepCap:
                pass
            except HarnessTimeout:
                H.timeout = True
            except Exception as e:  # noqa
                H.exc = e
                H.exc_site = innermost_dfols_function(e.__traceback__)
                H.exc_tb = ''.join(traceback.format_exception(type(e), e, e.__traceback__)[-6:])
            H.warns = [(w.category.__name__, str(w.message)[:80]) for w in wlist]
    finally:
        if wall_guard:
            signal.setitimer(signal.ITIMER_REAL, 0)
            signal.signal(signal.SIGALRM, old_handler)
        np.seterr(**saved_err)
    H.stdout = out.getvalue()
    st = np.random.get_state()
    H.rng_end = hashlib.sha256(st[1].tobytes() + repr(st[2:]).encode()).hexdigest()[:16]
    after = snapshot_call(x0, kw)
    H.caller_after_ok = (after == H.caller_before)
    if not H.caller_after_ok:
        H.caller_diff = _first_diff(H.caller_before, after)
    return H


def _first_diff(a, b, path=''):
    if a == b:
        return None
    if isinstance(a, tuple) and isinstance(b, tuple) and len(a) == len(b):
        for i, (x, y) in enumerate(zip(a, b)):
            d = _first_diff(x, y, path + '/%s' % (x[0] if isinstance(x, tuple) and x and isinstance(x[0], str) else i))
            if d:
                return d
    return path or 'root'
