"""The simulated environment's *data model*: residual families, convex sets with exact projectors, regularisers with
their proximal operators, counter-based noise.  Everything here is a pure function of scenario data, so that one
scenario JSON is one exactly repeatable world.  None of this module is ever imported by dfols."""
import math

import numpy as np

EPS = float(np.finfo(float).eps)


# ---------------------------------------------------------------------------------------------------------------
# residual families (all defined through A (m x n) and b (m) so that truncating A, b, x0 gives a smaller world)
# ---------------------------------------------------------------------------------------------------------------

def world_dims(world):
    A = world['A']
    return len(A[0]) if A else 0, len(A)


def make_residual(world):
    """Returns r(x) -> ndarray (fresh array each call)."""
    fam = world['family']
    A = np.array(world['A'], dtype=float)
    b = np.array(world['b'], dtype=float)
    m, n = A.shape
    nanreg = world.get('nan_region')
    if nanreg is not None:
        na = np.array(nanreg['a'], dtype=float)
        nc = float(nanreg['c'])
        nval = {'nan': np.nan, 'inf': np.inf}[nanreg['value']]

    if fam == 'lin':
        def base(x):
            return A.dot(x) - b
    elif fam == 'sinlin':
        def base(x):
            z = A.dot(x)
            return z - b + 0.5 * np.sin(z)
    elif fam == 'cubic':
        def base(x):
            z = A.dot(x) - b
            return z + 0.1 * z ** 3
    elif fam == 'trig':
        def base(x):
            return A.dot(np.sin(x)) + np.sum(np.cos(x)) - b
    elif fam == 'rosen':
        # chained Rosenbrock; uses only the shape of A: m rows are filled cyclically from the 2(n-1) (or 2) terms
        def base(x):
            if n == 1:
                terms = np.array([1.0 - x[0], 10.0 * (x[0] ** 2 - 0.5)])
            else:
                terms = np.concatenate([10.0 * (x[1:] - x[:-1] ** 2), 1.0 - x[:-1]])
            return np.array([terms[i % len(terms)] for i in range(m)], dtype=float)
    elif fam == 'expfit':
        t = np.arange(1, m + 1, dtype=float) / float(m)

        def base(x):
            with np.errstate(all='ignore'):
                r = b - x[0] * np.exp(-(x[1] if n > 1 else 1.0) * t)
                if n > 2:
                    r = r + A[:, 2:].dot(x[2:])
            return r
    else:
        raise ValueError('unknown family %r' % fam)

    if nanreg is None:
        return base

    def with_region(x):
        r = base(x)
        if float(np.dot(na, x)) > nc:
            r = np.full(m, nval)
        return r
    return with_region


# ---------------------------------------------------------------------------------------------------------------
# convex sets
# ---------------------------------------------------------------------------------------------------------------

def make_projector(s):
    kind = s['kind']
    if kind == 'ball':
        c = np.array(s['c'], dtype=float)
        r = float(s['r'])

        def pball(x):
            d = x - c
            nd = float(np.linalg.norm(d))
            if nd <= r:
                return x.copy()
            return c + (r / nd) * d
        return pball
    if kind == 'half':
        a = np.array(s['a'], dtype=float)
        bb = float(s['b'])
        aa = float(np.dot(a, a))

        def phalf(x):
            v = float(np.dot(a, x)) - bb
            if v <= 0.0:
                return x.copy()
            return x - (v / aa) * a
        return phalf
    if kind == 'box':
        lo = np.array(s['l'], dtype=float)
        hi = np.array(s['u'], dtype=float)

        def pbox(x):
            return np.minimum(np.maximum(x, lo), hi)
        return pbox
    raise ValueError('unknown set kind %r' % kind)


def set_distance(s, x):
    """Euclidean distance from x to the set (exact formulas, independent of the projector stubs above)."""
    kind = s['kind']
    if kind == 'ball':
        return max(0.0, float(np.linalg.norm(x - np.array(s['c'], dtype=float))) - float(s['r']))
    if kind == 'half':
        a = np.array(s['a'], dtype=float)
        return max(0.0, (float(np.dot(a, x)) - float(s['b'])) / float(np.linalg.norm(a)))
    if kind == 'box':
        lo = np.array(s['l'], dtype=float)
        hi = np.array(s['u'], dtype=float)
        return float(np.linalg.norm(np.maximum(lo - x, 0.0) + np.maximum(x - hi, 0.0)))
    raise ValueError(kind)


# ---------------------------------------------------------------------------------------------------------------
# regularisers
# ---------------------------------------------------------------------------------------------------------------

def make_regulariser(reg, n):
    """Returns dict(h=, prox=, lh=, argsh=, argsprox=, hval=) ; hval(x) is the harness-side recomputation."""
    kind = reg['kind']
    lam = float(reg['lam'])
    style = reg.get('style', 'closure')
    if kind == 'l1':
        def hval(x):
            return lam * float(np.sum(np.abs(x)))

        def proxval(x, u):
            return np.sign(x) * np.maximum(np.abs(x) - lam * u, 0.0)
        lh = lam * math.sqrt(n)
    elif kind == 'l2norm':
        def hval(x):
            return lam * float(np.linalg.norm(x))

        def proxval(x, u):
            nx = float(np.linalg.norm(x))
            if nx <= lam * u:
                return np.zeros_like(x)
            return (1.0 - lam * u / nx) * x
        lh = lam
    else:
        raise ValueError(kind)
    return dict(kind=kind, lam=lam, style=style, hval=hval, proxval=proxval, lh=float(lh))


# ---------------------------------------------------------------------------------------------------------------
# counter based noise: the noise of call k does not depend on how many calls were made before it
# ---------------------------------------------------------------------------------------------------------------

def noise_vector(seed, k, m):
    g = np.random.Generator(np.random.Philox(key=int(seed) & ((1 << 64) - 1), counter=int(k)))
    return g.standard_normal(m)
