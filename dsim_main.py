#!/venv/bin/python
"""CLI of the dfols deterministic simulator.  Use through ./check (which pins the environment)."""
import json
import os
import sys

sys.path.insert(0, os.path.dirname(os.path.abspath(__file__)))
from dsim import boot  # noqa

boot.ensure_env()
boot.import_dfols()


def main(argv):
    if not argv:
        print(__doc__)
        return 2
    cmd = argv[0]
    from dsim import runner
    if cmd == 'replay':
        rec = json.load(open(argv[1]))
        vs, dig = runner.reproduce(rec)
        hit = runner.same_failure(vs, rec['expect'])
        print('DIGEST %s' % dig)
        if hit:
            print('REPRODUCED %s/%s/%s: %s' % (hit['prop'], hit['clause'], hit['site'], hit['detail']))
            print('VIOLATION property=%s replay=%s' % (rec['property'], os.path.abspath(argv[1])))
            return 1
        print('NOT-REPRODUCED (%d other violations: %s)' % (len(vs), [(v['prop'], v['clause'], v['site']) for v in vs][:4]))
        return 0
    if cmd == 'unit-digests':
        runner.unit_digests(argv[1])
        return 0
    if cmd.startswith('selftest'):
        from dsim import selftest
        return selftest.main(cmd, argv[1:])
    # property check
    check_id = cmd
    tier = os.environ.get('VERIF_TIER', 'quick')
    seed = int(os.environ.get('VERIF_SEED', '20260926'))
    i = 1
    while i < len(argv):
        if argv[i] == '--tier':
            tier = argv[i + 1]
            i += 2
        elif argv[i] == '--seed':
            seed = int(argv[i + 1])
            i += 2
        else:
            i += 1
    from dsim import checks
    if check_id not in checks.CHECKS:
        print('unknown check %r; known: %s' % (check_id, sorted(checks.CHECKS)))
        return 2
    code, ev = runner.run_check(check_id, tier, seed)
    return code


if __name__ == '__main__':
    sys.exit(main(sys.argv[1:]))
