#!/bin/bash
# Offline setup: verify interpreter + packages, install hypothesis from the offline wheelhouse only if missing,
# byte-compile the framework. Nothing is fetched from the network.
set -e
cd "$(dirname "$0")"
PY=/venv/bin/python
$PY -c "import numpy, scipy, pandas" 
$PY -c "import hypothesis" 2>/dev/null || /venv/bin/pip install --no-index --find-links /opt/veriftools/wheels hypothesis
$PY -m compileall -q dsim >/dev/null
mkdir -p evidence replays
echo "setup ok"
