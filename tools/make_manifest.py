#!/venv/bin/python
"""Regenerates /verif/MANIFEST.json from the check registry (dsim/checks.py).  Run through: ./check-env tools/make_manifest.py"""
import json
import os
import sys

ROOT = os.path.dirname(os.path.dirname(os.path.abspath(__file__)))
sys.path.insert(0, ROOT)
from dsim import boot  # noqa
boot.ensure_env()
boot.import_dfols()
from dsim import checks  # noqa

TEXT = {
 'C01': ('exploration', "Seeded simulation of bounded solves with the objfun seam asserting lower <= x <= upper bit-exactly (NaN fails) at every evaluation and on soln.x, over x0 placements, bound shapes, scaling, noise, averaging, restarts, regression, growing, regularised and convex+bounds worlds, forced base shifts and value faults. Plus the internal-seam fault enumeration: every handled, feasible linear solve of the interpolation system of a reference run fails in turn ('singular system'), alone and in pairs, which drives the restart-after-failure branches of the main loop. Sampling evidence, not proof; right level because the property quantifies over every evaluation of every history, which only running histories can reach.", '4 C01'),
 'C02': ('fault_enumeration', "Refinement of the recorded (objfun calls, nsamples replies, log records) history against a counter automaton; per sampled world the budget cut is enumerated at every k = 1..nf_ref (all k in thorough tier), so every 'budget ran out here' path of that world is visited; plus swarm and value-fault legs. Plus the internal-seam fault enumeration: every handled, feasible linear solve of the interpolation system of a reference run fails in turn ('singular system'), alone and in pairs, which drives the restart-after-failure branches of the main loop. Plus target enumeration: the 'objective is sufficiently small' exit is made to fire at every record evaluation of a reference run, alone and right after a NaN / inf reply.", '4 C02'),
 'C03': ('exploration', "Post-run and once-per-iteration check of (x, resid, obj, xmin_eval_num) against the recorded calls on every exit route the swarm / cut-point / regularised / faulted legs reach. Plus the internal-seam fault enumeration: every handled, feasible linear solve of the interpolation system of a reference run fails in turn ('singular system'), alone and in pairs, which drives the restart-after-failure branches of the main loop. Plus target enumeration: the 'objective is sufficiently small' exit is made to fire at every record evaluation of a reference run, alone and right after a NaN / inf reply.", '4 C03'),
 'C04': ('exploration', "Deterministic worlds only: returned obj <= every finite recorded objective, at exit, per run (hard restarts) and at every iteration; NaN regions, convex sets, regulariser, single value faults (every k, also followed by a budget cut 1-2 evaluations later), cut-point enumeration. Plus the internal-seam fault enumeration: every handled, feasible linear solve of the interpolation system of a reference run fails in turn ('singular system'), alone and in pairs, which drives the restart-after-failure branches of the main loop. Plus target enumeration: the 'objective is sufficiently small' exit is made to fire at every record evaluation of a reference run, alone and right after a NaN / inf reply.", '4 C04'),
 'C07': ('fault_enumeration', "(a) the argument-fault catalogue (one argument / user parameter / contradiction replaced per call, per-key entries generated from the live ParameterList) is enumerated completely over 6 base worlds: no exception, input-error flag, zero events at any seam, unknown key -> ValueError, boundary values accepted; (b) well-formed result on every exit route reached by fault-free swarms; (c) return within the deterministic step cap; (d) internal-seam fault enumeration ('singular interpolation system' at every handled linear solve, also in the growing phase): must end in a documented flag, never raise.", '4 C07'),
 'C08': ('fault_enumeration', "Per sampled world a fault-free reference run, then every evaluation index k x {NaN,+inf,-inf,1e200} x {one,all components} plus a raised exception (the harness' own class and the classes dfols itself catches: LinAlgError, ValueError, OverflowError), then from-k-on faults, then random multi-fault schedules and NaN-region worlds; oracle: terminates, does not raise (except opt-in / the injected exception by identity), bounds+budget kept, finite evaluated x, a bad value never displaces a finite best point.", '4 C08'),
 'C09': ('exploration', "Wrapper round the alternating-projection routine as imported by each dfols module; every evaluated point after x0 must be bit-identical to a recorded output, within sqrt(p*tol) of each set when the stop rule fired (theorem of the stopping quantity), bound box exact; infeasible x0 replaced by its projection.", '4 C09'),
 'C10': ('exploration', "History oracle coupling (flag, msg) to recorded facts: obj vs tolerance, captured rho vs rescaled rhoend (bit-exact), #calls == maxfun, restart events counted at the seams vs nruns, success => finite obj. Plus the internal-seam fault enumeration: every handled, feasible linear solve of the interpolation system of a reference run fails in turn ('singular system'), alone and in pairs, which drives the restart-after-failure branches of the main loop. Plus target enumeration: the 'objective is sufficiently small' exit is made to fire at every record evaluation of a reference run, alone and right after a NaN / inf reply.", '4 C10'),
 'C11': ('exploration', "Independent least-squares fit to the recorded calls named by jacmin_eval_nums compared with soln.jacobian under a conditioning-scaled tolerance (and with A for linear worlds); bounds, scaling, npt n+1..2n+1, cut points, soft/hard restarts, averaging. Plus the internal-seam fault enumeration: every handled, feasible linear solve of the interpolation system of a reference run fails in turn ('singular system'), alone and in pairs, which drives the restart-after-failure branches of the main loop.", '4 C11'),
 'C12': ('exploration', "REDUCED SCOPE (class B): rounding-aware postconditions asserted on every call the solver makes to the box trust-region routine during simulated, fault-perturbed runs. Inputs the solver cannot produce (indefinite H, degenerate boxes) are not covered - the statement's direct quantifier over all inputs is not decided by this technique.", '4 C12, 5'),
 'C13': ('exploration', "REDUCED SCOPE (class B): in-situ assertions on every call to the geometry step (global maximum via a bisection oracle), the PGD / S-FISTA / convex geometry solvers (norm bound) and the regularised trust-region step (predicted reduction) during simulated runs.", '4 C13, 5'),
 'C14': ('exploration', "REDUCED SCOPE for the generators (class B): prefix of every bounded history with coordinate initialisation (first npt points: projected x0, inside bounds, distances in [0.01,2]*rhobeg, cond < 1e4) over all x0 placements; in-situ assertions on the random direction generators, which consume the simulator-owned global RNG.", '4 C14, 5'),
 'C15': ('exploration', "REDUCED SCOPE (class B): the routine's own contract asserted on every call made from dfols.model / solver / controller / trust_region in convex and regularised worlds; reference run to tol 1e-30 for a deterministic sample at tol <= 1e-10.", '4 C15, 5'),
 'C16': ('exploration', "Seeded operation histories (replace / grow / append / swap / base shift / refit / factorise-then-mutate) on a real Model with identities checked after every step (tolerance 1e3*eps*cond*scale), shrunk by ddmin; plus the same identities after every fit inside simulated solves.", '4 C16'),
 'C17': ('exploration', "Seeded operation histories on a real Model against a shadow model, with NaN/inf/exact ties injected as data faults, with and without a regulariser; shrunk by ddmin.", '4 C17'),
 'C18': ('exploration', "Time-series invariants over soln.diagnostic_info of every simulated run with diagnostics on, cross-checked row by row with the harness' own iteration events; includes 'long march' worlds (minimiser 1e11-1e14 away) in which the radius reaches its 1e10 cap. Plus the internal-seam fault enumeration: every handled, feasible linear solve of the interpolation system of a reference run fails in turn ('singular system'), alone and in pairs, which drives the restart-after-failure branches of the main loop.", '4 C18'),
 'C19': ('exploration', "Sessions: the same non-randomised call under different global-RNG states, with the environment drawing from the shared RNG between solver draws, after an unrelated call and after a call that raised; bit-identical behaviour digests; caller-side snapshots of all arguments compared after every call of every leg.", '4 C19'),
 'C20': ('exploration', "Every result object with a solution produced by the simulated runs (all exit flags reached, NaN from injected faults, diagnostics on/off) goes through to_dict -> strict json -> from_dict -> str; plus field faults injected into real results. The property itself is a pure function of the result object; the simulator contributes the population of results.", '4 C20'),
}
NOTE = {
 'C12': 'Only inputs produced by simulated histories; indefinite H and degenerate boxes are out of scope of this check.',
 'C13': 'Only inputs produced by simulated histories; degenerate boxes / radii the solver never produces are out of scope.',
 'C14': 'Generators: only argument patterns produced by simulated histories (random init, growing, momentum, restarts with increase_npt).',
 'C15': 'Only calls made by simulated histories; the 1e-3 optimality clause is asserted for tol <= 1e-10 only.',
}
TECH = {
 'C01': 'deterministic simulation: online invariant at the objfun seam over seeded worlds x fault schedules',
 'C02': 'deterministic simulation: history refinement against a counter automaton with cut-point (budget-crash) enumeration',
 'C03': 'deterministic simulation: history oracle at exit and per iteration over seeded worlds, cuts, faults',
 'C04': 'deterministic simulation: history oracle (best value retained) at exit, per run, per iteration',
 'C07': 'deterministic simulation with argument-fault enumeration; liveness by deterministic step cap',
 'C08': 'deterministic simulation with fault-point enumeration (every evaluation x every fault kind)',
 'C09': 'deterministic simulation: seam wrapper on the projection routine + history oracle',
 'C10': 'deterministic simulation: history oracle on exit flags vs recorded facts',
 'C11': 'deterministic simulation: independent refit from the recorded history',
 'C12': 'deterministic simulation: in-situ assertions at an internal seam during fault-perturbed runs',
 'C13': 'deterministic simulation: in-situ assertions at internal seams during fault-perturbed runs',
 'C14': 'deterministic simulation: history prefix oracle + in-situ assertions on RNG-consuming generators',
 'C15': 'deterministic simulation: in-situ contract assertions on every projection call',
 'C16': 'seeded stateful operation histories with ddmin shrinking + in-situ identities in simulated solves',
 'C17': 'seeded stateful operation histories against a shadow model with data-fault injection',
 'C18': 'deterministic simulation: time-series invariants over the diagnostic history',
 'C19': 'deterministic simulation: multi-call sessions on shared global RNG state; caller-side snapshots',
 'C20': 'deterministic simulation: hosted round-trip assertion over simulated result objects + field-fault injection',
}
NA = [
 ('C05', 'not applicable to deterministic simulation: a pure convergence claim whose precondition (exactly linear residuals, default budget, no randomised option) pins every dimension a simulator can vary - any injected fault, cut or noise voids the precondition; deciding it would be input generation plus a reference solver, not simulation (DESIGN.md section 5)'),
 ('C06', 'not applicable to deterministic simulation: same reason as C05 (pure convergence claim for linear residuals + convex regulariser); its two code defects (shifted box, argsprox TypeError) were nevertheless reached and repaired through C03 / C07 worlds (DESIGN.md sections 5, 6)'),
]
props = [json.loads(l) for l in open(os.path.join(ROOT, 'properties.jsonl'))]
claimed = [p['id'] for p in props if p['id'] in checks.CHECKS and p['id'] in TEXT]
m = {
 'version': 1,
 'setup_cmd': './setup.sh',
 'hooks': {'guard': 'DFOLS_VERIF', 'enable': 'no source hooks exist: every seam is a public callback argument or a module/class attribute patched from the harness at run time (dsim/sim.py, dsim/probes.py); the guard name is reserved and unused',
           'baseline_off_cmd': 'cd /repo && /venv/bin/python -m pytest -ra -q -p no:cacheprovider --timeout=900 --continue-on-collection-errors', 'source_commits': [], 'add_only': True},
 'engines': [
  {'name': 'dsim/solve', 'path': 'dsim/sim.py', 'serves_properties': [c for c in claimed if c not in ('C16', 'C17')], 'kind_free_text': 'single-process deterministic simulator of solve(): all callbacks, the global RNG, logging, warnings and stdout are played by the harness; scenario JSON = replay file; seeded swarm generator, cut-point / fault-point / argument-fault / linear-algebra-fault / target enumeration legs, sessions, in-situ probes, delta-debugging minimiser, fresh-interpreter replay'},
  {'name': 'dsim/model', 'path': 'dsim/model_machine.py', 'serves_properties': ['C16', 'C17'], 'kind_free_text': 'seeded stateful operation histories on a real dfols Model against a shadow model / identities, ddmin shrinking, op list = replay file'},
 ],
 'checks': [],
 'notes': 'All checks: ./check <ID> --tier quick|thorough (honours VERIF_SEED, VERIF_TIER). Exit 0 held (after KNOWN-FINDING lines); exit 1 with VIOLATION lines (each replay verified in a fresh interpreter under another PYTHONHASHSEED); exit 2 harness problem (HARNESS-ERROR / HARNESS-TIMEOUT / NONDETERMINISM / REPLAY-UNSTABLE), never a verdict. Known findings: KNOWN_FINDINGS.txt + known/*.json. Self-tests: ./check selftest-determinism, ./check selftest-sensitivity.',
 'not_applicable': [{'property_id': a, 'reason': b} for a, b in NA],
}
for pid in claimed:
    lvl, text, ref = TEXT[pid]
    assert lvl == checks.CHECKS[pid]['level'], pid
    m['checks'].append({
        'property_id': pid,
        'quick_cmd': './check %s --tier quick' % pid,
        'thorough_cmd': './check %s --tier thorough' % pid,
        'evidence_file': 'evidence/%s.json' % pid,
        'replay_cmd_template': './check replay {path}',
        'engine': 'dsim/model' if pid in ('C16', 'C17') else 'dsim/solve',
        'level_claimed': {'category': lvl, 'text': text, 'design_ref': 'DESIGN.md section ' + ref},
        'level_note': NOTE.get(pid, 'Trusted base: numpy/scipy/pandas, the harness stubs and oracles in /verif/dsim; sampling evidence except for the per-world enumerations.') + ' Open known findings for this property are listed in KNOWN_FINDINGS.txt and re-derived from their committed replays on every run.',
        'technique': TECH[pid],
    })
for p in props:
    if p['id'] not in claimed and p['id'] not in [a for a, _ in NA]:
        m['not_applicable'].append({'property_id': p['id'], 'reason': 'check not built yet'})
json.dump(m, open(os.path.join(ROOT, 'MANIFEST.json'), 'w'), indent=1)
print('claimed', claimed, 'NA', [x['property_id'] for x in m['not_applicable']])
