#!/bin/bash
# Runs every registered check at the given tier (default quick) and prints one line per check.
cd "$(dirname "$0")/.."
TIER="${1:-quick}"
for c in C01 C02 C03 C04 C07 C08 C09 C10 C11 C12 C13 C14 C15 C16 C17 C18 C19 C20; do
  s=$(date +%s)
  ./check $c --tier $TIER > /tmp/all_$c.log 2>&1
  rc=$?
  e=$(date +%s)
  echo "$c exit=$rc wall=$((e-s))s known=$(grep -c '^KNOWN-FINDING' /tmp/all_$c.log) viol=$(grep -c '^VIOLATION' /tmp/all_$c.log) :: $(grep '^-- ' /tmp/all_$c.log | cut -c1-140)"
done
