#!/venv/bin/python
"""Prints a markdown table of the seeded changes whose id ends in one of the given suffixes (default: d e) from seeded/*/meta.json."""
import glob, json, os, re, sys
ROOT = os.path.dirname(os.path.dirname(os.path.abspath(__file__)))
suf = tuple(sys.argv[1:]) or ('d', 'e')
for mp in sorted(glob.glob(os.path.join(ROOT, 'seeded', '*', 'meta.json'))):
    m = json.load(open(mp))
    if not m['id'].endswith(suf):
        continue
    summ = re.sub(r'\s+', ' ', (m.get('summary') or '')).replace('|', '/')
    needs = re.sub(r'\s+', ' ', (m.get('needs') or '')).replace('|', '/')
    det = m.get('detected_by_checks') or []
    first = ''
    for c in det:
        f = (m['checks'][c].get('first') or [''])[0]
        mm = re.match(r'(C\d\d) / (\S+) / (\S+)', f)
        first = '%s `%s @ %s`' % (mm.group(1), mm.group(2), mm.group(3)) if mm else c
        break
    out = ('caught: ' + first) if det else ('**missed**' if m.get('confirmed') else 'not confirmed')
    if m.get('strengthening'):
        out += ' — ' + m['strengthening']
    if m.get('expect_miss'):
        out = 'not detected, by design: ' + (m.get('miss_reason') or '')
    print('| %s | %s — needs: %s | %s |' % (m['id'], summ[:260], needs[:200], out))
