#!/bin/bash
# Soak: every registered check at quick tier over several VERIF_SEED values; evidence files are not touched.
# usage: tools/soak.sh "2 3 4 5" [checks...]
cd "$(dirname "$0")/.."
SEEDS="${1:-2 3 4}"
shift
CHECKS="${@:-C01 C02 C03 C04 C07 C08 C09 C10 C11 C12 C13 C14 C15 C16 C17 C18 C19 C20}"
mkdir -p /tmp/soak
for s in $SEEDS; do
  for c in $CHECKS; do
    t0=$(date +%s)
    DSIM_NO_EVIDENCE=1 DSIM_REPORT_ALL=1 VERIF_SEED=$s ./check $c --tier quick > /tmp/soak/${c}_$s.log 2>&1
    rc=$?
    echo "seed=$s $c exit=$rc wall=$(( $(date +%s)-t0 ))s $(grep -c '^VIOLATION' /tmp/soak/${c}_$s.log) viol :: $(grep -E '^ +[0-9]+  C|HARNESS' /tmp/soak/${c}_$s.log | cut -c1-220 | head -3 | tr '\n' '|')"
    if [ $rc -ne 0 ]; then mkdir -p /tmp/soak/replays_${c}_$s; cp replays/${c}-*.json /tmp/soak/replays_${c}_$s/ 2>/dev/null; fi
  done
done
