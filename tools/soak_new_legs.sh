#!/bin/bash
# Soak of the legs added last (development aid): usage tools/soak_new_legs.sh "1 2 3" "linalg,target-enum,long-march,fault-then-cut" [checks...]
cd "$(dirname "$0")/.."
SEEDS="${1:-1 2 3}"; LEGS="${2:-linalg,target-enum,long-march,fault-then-cut}"; shift; shift
CHECKS="${@:-C01 C02 C03 C04 C07 C10 C11 C18}"
mkdir -p /tmp/soak
for s in $SEEDS; do for c in $CHECKS; do
  t0=$(date +%s)
  DSIM_ONLY_LEG="$LEGS" DSIM_NO_EVIDENCE=1 DSIM_REPORT_ALL=1 VERIF_SEED=$s ./check $c --tier quick > /tmp/soak/new_${c}_$s.log 2>&1; rc=$?
  echo "seed=$s $c exit=$rc wall=$(( $(date +%s)-t0 ))s $(grep -c '^VIOLATION' /tmp/soak/new_${c}_$s.log) viol :: $(grep -E '^ +[0-9]+  C|HARNESS' /tmp/soak/new_${c}_$s.log | cut -c1-260 | head -3 | tr '\n' '|')"
  if [ $rc -ne 0 ]; then mkdir -p /tmp/soak/replays_new_${c}_$s; cp replays/${c}-*.json /tmp/soak/replays_new_${c}_$s/ 2>/dev/null; fi
done; done
