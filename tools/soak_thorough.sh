#!/bin/bash
# Thorough-tier pass over all checks (no evidence written), for soaking the thorough commands on the unchanged tree.
cd "$(dirname "$0")/.."
SEED="${1:-20260926}"
mkdir -p /tmp/soakT
for c in C02 C03 C04 C10 C11 C12 C16 C17 C18 C19 C20 C14 C01 C07 C08 C09 C13 C15; do
  t0=$(date +%s)
  DSIM_NO_EVIDENCE=1 DSIM_REPORT_ALL=1 VERIF_SEED=$SEED ./check $c --tier thorough > /tmp/soakT/${c}_$SEED.log 2>&1
  rc=$?
  echo "thorough seed=$SEED $c exit=$rc wall=$(( $(date +%s)-t0 ))s :: $(grep '^-- ' /tmp/soakT/${c}_$SEED.log | cut -c1-150) :: $(grep -E '^ +[0-9]+  C|HARNESS' /tmp/soakT/${c}_$SEED.log | cut -c1-200 | head -3 | tr '\n' '|')"
  if [ $rc -ne 0 ]; then mkdir -p /tmp/soakT/replays_${c}_$SEED; cp replays/${c}-*.json /tmp/soakT/replays_${c}_$SEED/ 2>/dev/null; fi
done
