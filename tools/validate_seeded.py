#!/venv/bin/python
"""Validates one seeded change produced by an independent sub-agent and records it under /verif/seeded/<id>/.

  tools/validate_seeded.py <id> [--props C03,C04] [--worktree /tmp/wt_<id>] [--out /tmp/seeded_out/<id>]

Steps (all in the scratch worktree, never in /repo): the worktree diff equals patch.diff; the 118 baseline tests pass with the
change; demo exits 1 with the change and 0 without it; then the registered quick check(s) of the property are run against the
changed worktree (DFOLS_SRC) and the verdict is stored in meta.json."""
import json, os, re, shutil, subprocess, sys, time
ROOT = os.path.dirname(os.path.dirname(os.path.abspath(__file__)))
sid = sys.argv[1]
args = sys.argv[2:]
def opt(name, default):
    return args[args.index(name) + 1] if name in args else default
wt = opt('--worktree', '/tmp/wt_' + sid)
out = opt('--out', '/tmp/seeded_out/' + sid)
notes = json.load(open(os.path.join(out, 'notes.json')))
props = opt('--props', notes['property']).split(',')
env = dict(os.environ, OPENBLAS_NUM_THREADS='1', PYTHONDONTWRITEBYTECODE='1')
def run(cmd, **kw):
    return subprocess.run(cmd, capture_output=True, text=True, env=env, **kw)
res = dict(id=sid, property=notes['property'], summary=notes.get('summary'), needs=notes.get('needs'), files=notes.get('files'))
# make sure the change is applied exactly as in patch.diff
run(['git', '-C', wt, 'checkout', '--', '.'])
p = run(['git', '-C', wt, 'apply', os.path.join(out, 'patch.diff')])
res['patch_applies'] = (p.returncode == 0)
t = run(['/venv/bin/python', '-m', 'pytest', '-q', '-p', 'no:cacheprovider', '--timeout=900'], cwd=wt)
res['tests_with_change'] = t.stdout.strip().splitlines()[-1] if t.stdout.strip() else t.stderr[-200:]
res['tests_pass'] = (t.returncode == 0)
d1 = run(['/venv/bin/python', os.path.join(out, 'demo.py')], cwd=wt)
res['demo_exit_with_change'] = d1.returncode
res['demo_output_with_change'] = (d1.stdout + d1.stderr)[-400:]
run(['git', '-C', wt, 'checkout', '--', '.'])
d0 = run(['/venv/bin/python', os.path.join(out, 'demo.py')], cwd=wt)
res['demo_exit_without_change'] = d0.returncode
run(['git', '-C', wt, 'apply', os.path.join(out, 'patch.diff')])
res['confirmed'] = bool(res['patch_applies'] and res['tests_pass'] and d1.returncode == 1 and d0.returncode == 0)
print(json.dumps({k: res[k] for k in ('patch_applies', 'tests_pass', 'demo_exit_with_change', 'demo_exit_without_change', 'confirmed')}))
checks = {}
if res['confirmed'] and '--no-checks' not in args:
    for prop in props:
        e2 = dict(os.environ, DFOLS_SRC=wt, DSIM_NO_EVIDENCE='1', DSIM_MAX_REPORT='2')
        t0 = time.time()
        c = subprocess.run([os.path.join(ROOT, 'check'), prop, '--tier', opt('--tier', 'quick')], capture_output=True, text=True, env=e2)
        viol = [l for l in c.stdout.splitlines() if l.startswith('VIOLATION')]
        det = [l.strip() for l in c.stdout.splitlines() if l.startswith('  C')]
        checks[prop] = dict(exit=c.returncode, violations=len(viol), first=det[:2], wall_s=round(time.time() - t0, 1), tier=opt('--tier', 'quick'))
        print(prop, json.dumps(checks[prop])[:400])
res['checks'] = checks
res['detected_by_checks'] = [p_ for p_, v in checks.items() if v['exit'] == 1 and v['violations'] > 0]
res['what_i_ran'] = 'git apply patch.diff in scratch worktree %s; pytest (baseline command); demo.py with and without the change; DFOLS_SRC=<worktree> ./check <prop> --tier quick' % wt
dst = os.path.join(ROOT, 'seeded', sid)
os.makedirs(dst, exist_ok=True)
shutil.copy(os.path.join(out, 'patch.diff'), os.path.join(dst, 'patch.diff'))
demo = open(os.path.join(out, 'demo.py')).read()
demo = demo.replace("'" + wt + "'", "os.environ.get('DFOLS_SRC', '/repo')").replace('"' + wt + '"', "os.environ.get('DFOLS_SRC', '/repo')")
if 'import os' not in demo:
    demo = 'import os\n' + demo
open(os.path.join(dst, 'demo.py'), 'w').write(demo)
# keep an existing meta's manual fields
mp = os.path.join(dst, 'meta.json')
if os.path.exists(mp):
    old = json.load(open(mp))
    for k in ('history', 'strengthening', 'expect_miss', 'miss_reason'):
        if k in old:
            res[k] = old[k]
    res.setdefault('history', []).append(dict(at=time.strftime('%Y-%m-%d %H:%M'), checks=old.get('checks')))
json.dump(res, open(mp, 'w'), indent=1)
